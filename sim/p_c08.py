"""C08 - feedback delivers each value exactly one smallest time step later; passive loops become quiescent."""
import random

import dataflow
import gen_dataflow
import oracle_dataflow as od
import runner
from framework import Outcome


class C08:
    id = "C08"
    level = "exploration"
    quick_runs = 1500
    quick_budget_s = 120
    thorough_budget_s = 900
    san = False
    rule = ("seeded programs with 1-3 feedback edges opened before the nodes that read them (self loops, mutual loops, several loops ticking "
            "together, with and without initial value, readers active or passive(fb()), producers that are compute nodes, sources, references, "
            "nested sub-graph outputs; SgFb = a feedback inside a nested child) x writer scripts with back-to-back writes on consecutive MIN_TD "
            "steps and gaps. Oracle: for each feedback, the stream recorded at the reader port equals [(start, initial)] ++ [(t+MIN_TD, v) for each "
            "(t, v) recorded at the bound producer port] restricted to the window (no loss, duplicate, reorder, same-cycle observation); a loop closed "
            "only through passive readers is quiescent one MIN_TD after its last external input; the whole run equals the reference interpreter. "
            "non-trivial = at least 2 deliveries; distinct = distinct (shape, delivery times)")
    assumptions = ["TS<Int> feedback only in this mode; collection-shaped feedback is exercised by the collections-mode checks"]

    def gen(self, seed):
        rng = random.Random(seed)
        g = gen_dataflow.Gen(rng, size=rng.randint(3, 18), allow=dict(how=("inline", "nested"), feedback=False))
        for _ in range(rng.randint(1, 3)):
            g.add_source()
        fbs = []
        for _ in range(rng.randint(1, 3)):
            n = dict(name=g.name(), kind="feedback", id=0)
            if rng.random() < 0.6:
                n["init"] = rng.randint(0, 9)
            g.add(n)
            fbs.append(n["name"])
        g.open_fb = []
        while len(g.nodes) < g.size:
            if rng.random() < 0.1:
                g.add_source()
            else:
                g.add_compute()
        prog = g.build()
        prog["sinks"] = []
        later = [n["name"] for n in prog["nodes"] if n["kind"] not in ("feedback", "delayed")]
        rid = 600
        pairs = []
        for fb in fbs:
            idx = [i for i, n in enumerate(prog["nodes"]) if n["name"] == fb][0]
            cands = [n["name"] for n in prog["nodes"][idx + 1:] if n["kind"] not in ("feedback", "delayed")]
            prod = rng.choice(cands) if cands else rng.choice(later)
            prog["binds"].append((fb, prod))
            prog["sinks"].append(dict(kind="rec", id=rid, port=fb))
            prog["sinks"].append(dict(kind="rec", id=rid + 1, port=prod))
            pairs.append((fb, prod, rid, rid + 1))
            rid += 2
        for p in g.ports:
            if rng.random() < 0.3 and p not in fbs:
                prog["sinks"].append(dict(kind="rec", id=rid, port=p))
                rid += 1
        return dict(prog=prog, pairs=pairs)

    def run(self, case, fresh=False):
        prog = dataflow.normalise(case["prog"])
        text = dataflow.emit(prog)
        res = runner.run_fresh(text, san=self.san) if fresh else runner.run(text, san=self.san)
        if not res.ok:
            return Outcome(harness_error="harness status=%s signal=%s timeout=%s tail=%s" % (res.status, res.signal, res.timeout, res.raw[-300:]), sample=text)
        for e in res.events:
            if e["k"] in ("wire_error", "harness_error"):
                return Outcome(harness_error="%s: %s" % (e["k"], e.get("what")), sample=text)
        sample = dict(scenario=text, log_head=res.raw[:1200])
        ran = [e for e in res.events if e["k"] == "ran"]
        if not ran or ran[0]["run"] != "ok":
            return Outcome(violation=dict(clause="run_threw", detail=ran[0].get("what") if ran else "no ran event"), digest=res.digest, sample=sample)
        start, end = prog["window"]
        names = {n["name"]: n for n in prog["nodes"]}
        sink_ports = {(s["id"]): s["port"] for s in prog["sinks"]}
        v = None
        deliveries = 0
        back_to_back = 0
        for (fb, prod, rfb, rprod) in case.get("pairs", []):
            if fb not in names or prod not in names or sink_ports.get(rfb) != fb or sink_ports.get(rprod) != prod:
                continue   # shrunk away
            if (fb, prod) not in [tuple(b) for b in prog["binds"]]:
                continue
            W = [(e["t"], e["v"]) for e in res.events if e["k"] == "rec" and e["id"] == rprod]
            D = [(e["t"], e["v"]) for e in res.events if e["k"] == "rec" and e["id"] == rfb]
            expect = []
            if names[fb].get("init") is not None:
                expect.append((start, names[fb]["init"]))
            expect += [(t + 1, val) for (t, val) in W if t + 1 < end]
            deliveries += len(D)
            back_to_back += sum(1 for a, b in zip(W, W[1:]) if b[0] == a[0] + 1)
            if D != expect:
                v = ("feedback_stream", "feedback %s bound to %s: written %s, expected at the reader %s, reader saw %s" % (fb, prod, W[:12], expect[:12], D[:12]))
                break
        if not v:
            v = od.check_against_model(prog, res)
        cycles = [e["t"] for e in res.events if e["k"] == "cyc" and e["g"] == 0]
        stats = dict(deliveries=deliveries, probe_back_to_back_writes=back_to_back, cycles=len(cycles), simulated_time_us=end - start,
                     probe_passive_reader=sum(1 for n in prog["nodes"] for a in n.get("args", []) if a.startswith("~") and names.get(a[1:], {}).get("kind") == "feedback"))
        return Outcome(violation=dict(clause=v[0], detail=v[1]) if v else None, stats=stats, digest=res.digest, nontrivial=deliveries >= 2,
                       sample=sample, shape=runner.h64(dataflow.shape_key(prog), cycles))

    def shrink(self, case):
        for q in dataflow.shrink_program(dataflow.normalise(case["prog"])):
            yield dict(prog=q, pairs=case.get("pairs", []))


PROPERTY = C08()
