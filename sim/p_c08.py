"""C08 - feedback delivers each value exactly one smallest time step later; passive loops become quiescent."""
import random

import json

import coll
import dataflow
import gen_dataflow
import ho
import oracle_coll as oc
import oracle_dataflow as od
import runner
from framework import Outcome


class C08:
    id = "C08"
    level = "exploration"
    quick_runs = 1500
    quick_budget_s = 120
    thorough_budget_s = 900
    san = False
    rule = ("seeded programs with 1-3 feedback edges opened before the nodes that read them (self loops, mutual loops, several loops ticking "
            "together, with and without initial value, readers active or passive(fb()), producers that are compute nodes, sources, references, "
            "nested sub-graph outputs; SgFb = a feedback inside a nested child) x writer scripts with back-to-back writes on consecutive MIN_TD "
            "steps and gaps. Oracle: for each feedback, the stream recorded at the reader port equals [(start, initial)] ++ [(t+MIN_TD, v) for each "
            "(t, v) recorded at the bound producer port] restricted to the window (no loss, duplicate, reorder, same-cycle observation); a loop closed "
            "only through passive readers is quiescent one MIN_TD after its last external input; the whole run equals the reference interpreter. "
            "non-trivial = at least 2 deliveries; distinct = distinct (shape, delivery times)"
            " Round 3: in 35% of the collection cases the written port is an if_then_else over two set/dictionary writers (a re-point writes the difference old -> new).")
    assumptions = ["a quarter of the cases are feedback edges of TSS / TSD / TSB / TS shape with scripted writers: there the reader's per-tick delta stream is compared with the writer's, one MIN_TD later",
                   "ticks whose structural delta is empty are excluded from that comparison (known finding F5, owned by C20)"]

    def gen_coll(self, rng):
        """feedback of collection shapes: the reader's delta stream is the writer's, one step later"""
        end = rng.choice((10, 16))
        writers, stmts, pairs = [], [], []
        for i in range(rng.randint(1, 2)):
            shape = rng.choice(("TSS", "TSD", "TS", "TSB"))
            wid = i + 1
            w = coll.gen_writer(rng, wid, shape, end)
            for off in w["script"]:
                w["script"][off] = [o for o in w["script"][off] if o[0] != "inv"] or [["d", coll.jd(coll.gen_delta(coll.SHAPES[shape], coll.fresh(coll.SHAPES[shape]), rng))]]
            writers.append(w)
            init = None
            if rng.random() < 0.5:
                init = coll.gen_delta(coll.SHAPES[shape], coll.fresh(coll.SHAPES[shape]), rng)
            fid = 10 * wid
            stmts.append("fbk %d src=%d%s" % (fid, wid, " init=" + coll.jd(init) if init is not None else ""))
            stmts.append("cons %d %d" % (fid + 1, fid))
            stmts.append("cons %d %d" % (fid + 2, wid))
            pairs.append(dict(fb=fid + 1, prod=fid + 2, init=init, shape=shape))
        if random.Random(rng.getrandbits(32)).random() < 0.35:
            # the port written into the feedback is a reference-shaped selection between two set / dictionary writers: on a retarget
            # the tick it writes is the difference between the old and the new target (additions AND removals)
            shape = rng.choice(("TSS", "TSD"))
            writers = []
            for wid in (1, 2):
                w = coll.gen_writer(rng, wid, shape, end)
                for off in w["script"]:
                    w["script"][off] = [o for o in w["script"][off] if o[0] != "inv"] or [["d", coll.jd(coll.gen_delta(coll.SHAPES[shape], coll.fresh(coll.SHAPES[shape]), rng))]]
                # both targets hold a value from the first cycle on (a retarget to a target without a value is C13's business)
                w["script"][0] = [["d", coll.jd(coll.gen_delta(coll.SHAPES[shape], coll.fresh(coll.SHAPES[shape]), rng))]] + [o for o in w["script"].get(0, [])]
                writers.append(w)
            sel = ho.gen_ts_writer(rng, 3, end, values=[True, False], shape="TSBool", dense=rng.random() < 0.5)
            sel["script"] = {t: ops for t, ops in sel["script"].items() if int(t) >= 1} or {1: [["d", "true"]]}
            writers.append(sel)
            stmts = ["ite 5 c=3 a=1 b=2", "fbk 50 src=5", "cons 51 50", "cons 52 5"]
            return dict(kind="coll", sc=dict(window=(0, end), writers=writers, stmts=stmts), pairs=[dict(fb=51, prod=52, init=None, shape=shape, via_ref=1)])
        return dict(kind="coll", sc=dict(window=(0, end), writers=writers, stmts=stmts), pairs=pairs)

    def run_coll(self, case, fresh):
        sc = ho.normalise(case["sc"])
        text = ho.emit(sc)
        res = runner.run_fresh(text, san=self.san) if fresh else runner.run(text, san=self.san)
        if not res.ok:
            return Outcome(harness_error="harness status=%s signal=%s timeout=%s tail=%s" % (res.status, res.signal, res.timeout, res.raw[-300:]), sample=text)
        for e in res.events:
            if e["k"] in ("wire_error", "harness_error"):
                return Outcome(harness_error="%s: %s" % (e["k"], e.get("what")), sample=text)
        sample = dict(scenario=text, log_head=res.raw[:1000])
        ran = [e for e in res.events if e["k"] == "ran"]
        if not ran or ran[0]["run"] != "ok":
            return Outcome(violation=dict(clause="run_threw", detail=ran[0].get("what", "")[:400] if ran else "no ran event"), digest=res.digest, sample=sample)
        end = sc["window"][1]
        C, Cfull = {}, {}
        for e in res.events:
            if e["k"] == "C" and e["i"] is not None:
                C.setdefault(e["id"], []).append((e["t"], oc.canon(e["i"].get("d"))))
                Cfull.setdefault(e["id"], []).append((e["t"], e["i"]))
        v = None
        deliveries = 0
        wids = {w["id"] for w in sc["writers"]}
        for p in case["pairs"]:
            if p.get("via_ref"):
                if not {1, 2, 3} <= wids:
                    continue
            elif (p["prod"] - 2) // 10 not in wids:
                continue
            shape = coll.SHAPES[p["shape"]]
            W = C.get(p["prod"], [])
            Dv = {t: i for (t, i) in Cfull.get(p["fb"], [])}
            replica = coll.fresh(shape)
            due = {}
            if p["init"] is not None:
                due[0] = p["init"]
            for (t, d) in W:
                if t + 1 < end:
                    due[t + 1] = d
            deliveries += len(Dv)
            for t in sorted(set(due) | set(Dv)):
                if t in Dv and t not in due:
                    v = ("feedback_unexpected_tick", "%s feedback reader ticked at %d; the producer ticked at %s" % (p["shape"], t, [x for (x, _) in W]))
                    break
                before = oc.model_norm(shape, replica)
                replica = coll.apply(shape, replica, json.loads(json.dumps(due[t])))
                after = oc.model_norm(shape, replica)
                if t not in Dv:
                    if oc.strip_empty(before) != oc.strip_empty(after):
                        v = ("feedback_lost", "%s feedback: the value written at %d (delta %s) never reached the reader at %d" % (p["shape"], t - 1, due[t], t))
                        break
                    continue
                got = oc.norm_value(shape, Dv[t]["val"], Dv[t].get("ch")) if Dv[t]["v"] else None
                if oc.strip_empty(got) != oc.strip_empty(after):
                    v = ("feedback_value", "%s feedback reader at %d reads %s; the values written so far, each delivered one step later, give %s" % (p["shape"], t, Dv[t]["val"], after))
                    break
            if v:
                break
        stats = dict(deliveries=deliveries, probe_collection_feedback=1, cycles=sum(1 for e in res.events if e["k"] == "cyc" and e["g"] == 0), simulated_time_us=end)
        return Outcome(violation=dict(clause=v[0], detail=v[1]) if v else None, stats=stats, digest=res.digest, nontrivial=deliveries >= 2, sample=sample,
                       shape=runner.h64(text))

    def gen(self, seed):
        rng = random.Random(seed)
        if rng.random() < 0.25:
            return self.gen_coll(rng)
        g = gen_dataflow.Gen(rng, size=rng.randint(3, 18), allow=dict(how=("inline", "nested"), feedback=False))
        for _ in range(rng.randint(1, 3)):
            g.add_source()
        fbs = []
        for _ in range(rng.randint(1, 3)):
            n = dict(name=g.name(), kind="feedback", id=0)
            if rng.random() < 0.6:
                n["init"] = rng.randint(0, 9)
            g.add(n)
            fbs.append(n["name"])
        g.open_fb = []
        while len(g.nodes) < g.size:
            if rng.random() < 0.1:
                g.add_source()
            else:
                g.add_compute()
        prog = g.build()
        prog["sinks"] = []
        later = [n["name"] for n in prog["nodes"] if n["kind"] not in ("feedback", "delayed")]
        rid = 600
        pairs = []
        for fb in fbs:
            idx = [i for i, n in enumerate(prog["nodes"]) if n["name"] == fb][0]
            cands = [n["name"] for n in prog["nodes"][idx + 1:] if n["kind"] not in ("feedback", "delayed")]
            prod = rng.choice(cands) if cands else rng.choice(later)
            prog["binds"].append((fb, prod))
            prog["sinks"].append(dict(kind="rec", id=rid, port=fb))
            prog["sinks"].append(dict(kind="rec", id=rid + 1, port=prod))
            pairs.append((fb, prod, rid, rid + 1))
            rid += 2
        for p in g.ports:
            if rng.random() < 0.3 and p not in fbs:
                prog["sinks"].append(dict(kind="rec", id=rid, port=p))
                rid += 1
        return dict(prog=prog, pairs=pairs)

    def run(self, case, fresh=False):
        if case.get("kind") == "coll":
            return self.run_coll(case, fresh)
        prog = dataflow.normalise(case["prog"])
        text = dataflow.emit(prog)
        res = runner.run_fresh(text, san=self.san) if fresh else runner.run(text, san=self.san)
        if not res.ok:
            return Outcome(harness_error="harness status=%s signal=%s timeout=%s tail=%s" % (res.status, res.signal, res.timeout, res.raw[-300:]), sample=text)
        for e in res.events:
            if e["k"] in ("wire_error", "harness_error"):
                return Outcome(harness_error="%s: %s" % (e["k"], e.get("what")), sample=text)
        sample = dict(scenario=text, log_head=res.raw[:1200])
        ran = [e for e in res.events if e["k"] == "ran"]
        if not ran or ran[0]["run"] != "ok":
            return Outcome(violation=dict(clause="run_threw", detail=ran[0].get("what") if ran else "no ran event"), digest=res.digest, sample=sample)
        start, end = prog["window"]
        names = {n["name"]: n for n in prog["nodes"]}
        sink_ports = {(s["id"]): s["port"] for s in prog["sinks"]}
        v = None
        deliveries = 0
        back_to_back = 0
        for (fb, prod, rfb, rprod) in case.get("pairs", []):
            if fb not in names or prod not in names or sink_ports.get(rfb) != fb or sink_ports.get(rprod) != prod:
                continue   # shrunk away
            if (fb, prod) not in [tuple(b) for b in prog["binds"]]:
                continue
            W = [(e["t"], e["v"]) for e in res.events if e["k"] == "rec" and e["id"] == rprod]
            D = [(e["t"], e["v"]) for e in res.events if e["k"] == "rec" and e["id"] == rfb]
            expect = []
            if names[fb].get("init") is not None:
                expect.append((start, names[fb]["init"]))
            expect += [(t + 1, val) for (t, val) in W if t + 1 < end]
            deliveries += len(D)
            back_to_back += sum(1 for a, b in zip(W, W[1:]) if b[0] == a[0] + 1)
            if D != expect:
                v = ("feedback_stream", "feedback %s bound to %s: written %s, expected at the reader %s, reader saw %s" % (fb, prod, W[:12], expect[:12], D[:12]))
                break
        if not v:
            v = od.check_against_model(prog, res)
        cycles = [e["t"] for e in res.events if e["k"] == "cyc" and e["g"] == 0]
        stats = dict(deliveries=deliveries, probe_back_to_back_writes=back_to_back, cycles=len(cycles), simulated_time_us=end - start,
                     probe_passive_reader=sum(1 for n in prog["nodes"] for a in n.get("args", []) if a.startswith("~") and names.get(a[1:], {}).get("kind") == "feedback"))
        return Outcome(violation=dict(clause=v[0], detail=v[1]) if v else None, stats=stats, digest=res.digest, nontrivial=deliveries >= 2,
                       sample=sample, shape=runner.h64(dataflow.shape_key(prog), cycles))

    def shrink(self, case):
        if case.get("kind") == "coll":
            import copy
            sc = ho.normalise(case["sc"])
            for i, w in enumerate(sc["writers"]):
                for off in sorted(w["script"]):
                    if len(w["script"]) > 1:
                        q = copy.deepcopy(sc)
                        del q["writers"][i]["script"][off]
                        yield dict(case, sc=q)
            return
        for q in dataflow.shrink_program(dataflow.normalise(case["prog"])):
            yield dict(prog=q, pairs=case.get("pairs", []))


PROPERTY = C08()
