"""mode higher_order: scenario emission, element-history extraction and the reference models of the function library."""
import copy
import json
import random

import coll


def emit(sc):
    lines = ["mode higher_order", "window %d %d" % tuple(sc["window"])]
    for w in sc["writers"]:
        lines.append("writer %d shape=%s" % (w["id"], w["shape"]))
        groups = []
        for off in sorted(w["script"], key=int):
            ops = w["script"][off]
            groups.append("|".join([str(off)] + [(o[0] + ("=" + o[1] if o[1] != "" else "")) for o in ops]))
        lines.append("wscript %d %s" % (w["id"], ";;".join(groups)))
    for st in sc.get("stmts", []):
        lines.append(st)
    if sc.get("options"):
        lines.append("option " + " ".join("%s=%s" % kv for kv in sorted(sc["options"].items())))
    return "\n".join(lines) + "\n"


def normalise(sc):
    q = copy.deepcopy(sc)
    for w in q["writers"]:
        w["script"] = {int(k): [list(o) for o in v] for k, v in w["script"].items()}
    q["window"] = tuple(q["window"])
    return q


# ------------------------------------------------------------------------------------------------ histories
def ts_history(writer):
    """[(t, value)] ticks of a TS writer"""
    out = []
    for t in sorted(writer["script"]):
        v = None
        for op in writer["script"][t]:
            if op[0] == "d":
                v = json.loads(op[1])
        if v is not None:
            out.append((t, v))
    return out


def tsd_history(writer):
    """per cycle: dict(removed=set, ticked={key: value}, state={key: value}) for a TSD<Int,TS<Int>> writer"""
    st = {}
    out = {}
    for t in sorted(writer["script"]):
        removed, ticked = set(), {}
        for op in writer["script"][t]:
            d = json.loads(op[1])
            for k in d.get("removed", []):
                k = int(k)
                if k in st:
                    del st[k]
                    removed.add(k)
                    ticked.pop(k, None)
            for k, v in d.get("modified", {}).items():
                k = int(k)
                st[k] = v
                ticked[k] = v
        out[t] = dict(removed=removed, ticked=ticked, state=dict(st))
    return out


def gen_tsd_writer(rng, wid, end, pool=5, allow_same_cycle_readd=False, magic=None, big=False, mid=False, huge=False):
    """TSD<Int,TS<Int>> writer with key histories: add, update, remove, re-add in a later cycle, many keys per cycle"""
    st = {}
    script = {}
    t = rng.choice((0, 0, 1))
    n_cycles = rng.randint(3, 10)
    if huge:
        # more than 64 (128) live entries at once: a second bitmap word / a third tree level in everything that indexes slots;
        # built in one to three cycles, later shrunk back to a handful (capacity is kept) and updated again
        big = True
        target = rng.choice((65, 66, 70, 100, 129, 140))
        keys = rng.sample(range(1, 161), target)
        parts = rng.choice((1, 1, 2, 3))
        for i in range(parts):
            if t >= end:
                break
            chunk = keys[i * target // parts:(i + 1) * target // parts]
            mod = {str(k): rng.randint(0, 99) for k in chunk}
            for k, v in mod.items():
                st[int(k)] = v
            script[t] = [["d", coll.jd({"removed": [], "modified": mod})]]
            t += 1
    shrunk = False
    for _ in range(n_cycles):
        if t >= end:
            break
        removed, modified = [], {}
        n_ops = rng.choice((1, 1, 2, 3, 5)) if not big else rng.choice((3, 8, 20))
        if huge and not shrunk and rng.random() < 0.3 and len(st) > 8:
            keep = set(rng.sample(sorted(st), rng.choice((1, 2, 4, 6))))
            rem = [k for k in st if k not in keep]
            for k in rem:
                st.pop(k)
            script[t] = [["d", coll.jd({"removed": rem, "modified": {}})]]
            t += rng.choice((1, 1, 2))
            shrunk = True
            pool = max(keep) + 3
            big = False
            continue
        if mid:
            n_ops = rng.choice((2, 4, 6, 9))        # key pools of 9-20: the live count hovers around the 8 / 16 boundaries, removals are frequent
        for _ in range(n_ops):
            k = rng.randint(1, pool if not big else (160 if huge else 80))
            if k in st and k not in modified and k not in removed and rng.random() < (0.45 if mid else 0.3):
                removed.append(k)
            elif k not in removed:
                v = rng.randint(0, 99)
                if magic is not None and rng.random() < 0.15:
                    v = magic
                modified[str(k)] = v
        if rng.random() < 0.06 and st:
            removed = [k for k in st if str(k) not in modified]      # shrink to (nearly) empty
        for k in removed:
            st.pop(k, None)
        for k, v in modified.items():
            st[int(k)] = v
        script[t] = [["d", coll.jd({"removed": removed, "modified": modified})]]
        t += rng.choice((1, 1, 1, 2, 3))
    return dict(id=wid, shape="TSD", script=script)


def gen_tsd_subset_writer(rng, wid, end, base):
    """a second TSD<Int,TS<Int>> whose key set is, in every cycle, a subset of the key set of writer `base`: keys join and
    leave it while they stay in the base dictionary (membership changes that do not tick the union key set), and leave it
    with the base key at the latest"""
    hist = tsd_history(base)
    st = {}
    script = {}
    cur1 = {}
    for t in range(end):
        if t in hist:
            cur1 = hist[t]["state"]
        removed = [k for k in st if k not in cur1]
        modified = {}
        if rng.random() < 0.6:
            for _ in range(rng.choice((1, 1, 2, 3))):
                if not cur1:
                    break
                k = rng.choice(sorted(cur1))
                if k in removed:
                    continue
                if k in st and str(k) not in modified and rng.random() < 0.35:
                    removed.append(k)
                elif k not in removed:
                    modified[str(k)] = rng.randint(0, 99)
        if removed or modified:
            for k in removed:
                st.pop(k, None)
            for k, v in modified.items():
                st[int(k)] = v
            script[t] = [["d", coll.jd({"removed": removed, "modified": modified})]]
    if not script:
        for t in sorted(hist):
            if hist[t]["state"]:
                script[t] = [["d", coll.jd({"removed": [], "modified": {str(sorted(hist[t]["state"])[0]): 5}})]]
                break
    return dict(id=wid, shape="TSD", script=script)


def gen_ts_writer(rng, wid, end, values=None, shape="TS", dense=False):
    script = {}
    t = rng.choice((0, 0, 1, 2))
    for _ in range(rng.randint(2, 9)):
        if t >= end:
            break
        v = rng.choice(values) if values else rng.randint(0, 99)
        script[t] = [["d", coll.jd(v)]]
        t += 1 if dense else rng.choice((1, 1, 2, 3))
    return dict(id=wid, shape=shape, script=script)


# ------------------------------------------------------------------------------------------------ function models
class FnModel:
    """solo reference of a library function over one element stream; call tick()/removed per cycle in time order"""

    def __init__(self, f, key=None):
        self.f = f
        self.key = key
        self.state = 0
        self.last = None       # TickAfter: latest input
        self.due = set()
        self.out = None        # current output value (None = invalid)
        self.x = None
        self.b = None
        self.started_at = None

    def pending(self):
        return min(self.due) if self.due else None

    def cycle(self, t, x_tick=None, b_tick=None, first=False):
        """one engine cycle: x_tick / b_tick are the values that ticked (or None). Returns (ticked, error message or None)"""
        if x_tick is not None:
            self.x = x_tick
        if b_tick is not None:
            self.b = b_tick
        f = self.f
        err = None
        ticked = False
        if f == "AddOne":
            if x_tick is not None:
                self.out = x_tick + 1
                ticked = True
        elif f == "Accum":
            if x_tick is not None:
                self.state += x_tick
                self.out = self.state
                ticked = True
        elif f == "Chain":
            if x_tick is not None:
                self.state += x_tick
                self.out = self.state + 1
                ticked = True
        elif f == "AddKey":
            if (x_tick is not None or first) and self.x is not None:
                self.out = self.key * 1000 + self.x
                ticked = True
        elif f == "TickAfter":
            due = t in self.due
            self.due = {d for d in self.due if d > t}
            if due and (x_tick is not None or True):
                # the node needs its input valid to run at all; it is (the key exists because the element ticked)
                self.out = self.last * 10
                ticked = True
            if x_tick is not None:
                self.last = x_tick
                self.due.add(t + 2)
        elif f == "FailOn":
            if x_tick is not None:
                if x_tick == 666:
                    err = "boom 666 at %d" % t
                else:
                    self.state += 1
                    self.out = x_tick * 2
                    ticked = True
        elif f == "PulseFail":
            # Pulse (pass-through now, 10 * latest input two steps later) feeding FailOn
            due = t in self.due
            self.due = {d for d in self.due if d > t}
            y = None
            if due:
                y = self.last * 10
            if x_tick is not None:
                self.last = x_tick
                y = x_tick
                self.due.add(t + 2)
            if y is not None:
                if y == 666:
                    err = "boom 666 at %d" % t
                else:
                    self.state += 1
                    self.out = y * 2
                    ticked = True
        elif f == "Add2":
            if (x_tick is not None or b_tick is not None) and self.x is not None and self.b is not None:
                self.out = self.x + self.b
                ticked = True
        elif f == "TickAdd2":
            # TickAfter on x (10 * latest x two steps after each x tick) feeding Add2 with b; x is valid whenever the key
            # exists (the generator keeps the second dictionary's keys a subset of the first's)
            due = t in self.due
            self.due = {d for d in self.due if d > t}
            y_tick = None
            if due:
                self.y = self.last * 10
                y_tick = self.y
            if x_tick is not None:
                self.last = x_tick
                self.due.add(t + 2)
            if (y_tick is not None or b_tick is not None) and getattr(self, "y", None) is not None and self.b is not None:
                self.out = self.y + self.b
                ticked = True
        elif f == "ConstSource":
            if first:
                self.out = 7
                ticked = True
        else:
            raise ValueError(f)
        return ticked, err
