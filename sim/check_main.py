import os
import sys

sys.path.insert(0, os.path.dirname(os.path.abspath(__file__)))
import framework

if __name__ == "__main__":
    prop = sys.argv[1]
    sys.exit(framework.main("p_" + prop.lower(), sys.argv[2:]))
