"""Check driver: seeded batches over 16 processes, oracles, shrinking, replay files, known findings, evidence.

A property module provides an object with:
  id, level ("exploration" | "fault_enumeration"), rule (str), components (dict)
  gen(seed) -> case (JSON-serialisable dict)
  run(case, fresh=False) -> Outcome
  shrink(case) -> iterable of smaller candidate cases (optional)
  quick_runs / thorough_budget_s (defaults)
"""
import hashlib
import json
import os
import sys
import time
import traceback
from concurrent.futures import ProcessPoolExecutor, as_completed
import multiprocessing

import runner

VERIF = os.path.dirname(os.path.dirname(os.path.abspath(__file__)))

COMPONENTS = {
    "real_code_compiled_from_working_tree": [
        "graph/node/executor runtime (simulation and real-time executors, node scheduler, push sources, feedback, nested/map/switch/reduce/try-except nodes)",
        "wiring (Wiring, ranking, interning, sub-graph compilation), operator dispatch",
        "time-series and value layers, record/replay, stdlib operator families (all except JSON)"],
    "replaced_by_simulator": ["libpthread mutex / condition-variable entry points and clock_gettime (interposed in the harness executable)"],
    "stubs": ["time-zone provider (throwing stub)", "JSON operator family (not registered; simdjson unavailable offline)",
              "chrono stream operators (shim)", "fmt/spdlog headers and Arrow binaries from the installed wheel/pyarrow"],
    "not_run": ["nanobind Python bridge (/repo/python/*.cpp) and python/hgraph package: cannot be built offline"],
}


class Outcome:
    """Result of running one case."""

    def __init__(self, violation=None, stats=None, digest="", nontrivial=True, harness_error=None, sample=None, shape=None):
        self.violation = violation          # None or dict(clause=..., detail=..., known=None|finding id)
        self.stats = stats or {}            # additive counters
        self.digest = digest                # digest of the event log(s): determinism checks
        self.nontrivial = nontrivial
        self.harness_error = harness_error  # str: timeout/crash of the harness itself, never a violation
        self.sample = sample
        self.shape = shape                  # hashable key for "distinct" counting


def seed_for(base, prop_id, i):
    return runner.h64("verif", base, prop_id, i) % (1 << 48)


_prop = None


def _init_worker(prop_module, san, instr=False):
    global _prop
    import importlib
    sys.path.insert(0, os.path.join(VERIF, "sim"))
    _prop = importlib.import_module(prop_module).PROPERTY
    _prop.san = san
    _prop.instr = instr
    import faulthandler
    faulthandler.enable()


def _work(args):
    seed, idx = args
    t0 = time.time()
    try:
        case = _prop.gen(seed)
        out = _prop.run(case)
        return dict(seed=seed, idx=idx, violation=out.violation, stats=out.stats, digest=out.digest, nontrivial=out.nontrivial,
                    harness_error=out.harness_error, sample=out.sample if idx < 3 else None, shape=out.shape,
                    case=(getattr(out, "case", None) or case) if (out.violation or out.harness_error) else None, wall=time.time() - t0)
    except runner.HarnessError as e:
        return dict(seed=seed, idx=idx, violation=None, stats={}, digest="", nontrivial=False, harness_error="harness: %s" % e,
                    sample=None, shape=None, case=None, wall=time.time() - t0)
    except Exception:
        return dict(seed=seed, idx=idx, violation=None, stats={}, digest="", nontrivial=False,
                    harness_error="driver exception: " + traceback.format_exc()[-1500:], sample=None, shape=None, case=None,
                    wall=time.time() - t0)


def load_known():
    p = os.path.join(VERIF, "known_findings.json")
    if not os.path.exists(p):
        return []
    return json.load(open(p)).get("findings", [])


def shrink_case(prop, case, clause, budget_s=120):
    """Greedy delta debugging over the property's own candidate generator while the same clause persists."""
    t0 = time.time()
    best = case
    improved = True
    rounds = 0
    while improved and time.time() - t0 < budget_s:
        improved = False
        rounds += 1
        for cand in prop.shrink(best):
            if time.time() - t0 > budget_s:
                break
            try:
                out = prop.run(cand)
            except Exception:
                continue
            if out.violation and out.violation["clause"] == clause and not out.harness_error:
                best = cand
                improved = True
                break
    return best


def main(prop_module, argv):
    import argparse
    ap = argparse.ArgumentParser()
    ap.add_argument("--tier", default=os.environ.get("VERIF_TIER", "quick"))
    ap.add_argument("--replay")
    ap.add_argument("--runs", type=int)
    ap.add_argument("--budget", type=float)
    ap.add_argument("--workers", type=int, default=int(os.environ.get("VERIF_WORKERS", os.cpu_count() or 4)))
    ap.add_argument("--san", action="store_true")
    ap.add_argument("--instr", action="store_true", help="C07: run the concurrent section on the instrumented build (pre-emption at function-call granularity)")
    ap.add_argument("--no-evidence", action="store_true")
    a = ap.parse_args(argv)
    tier = "thorough" if a.tier.startswith("thor") else "quick"

    if os.environ.get("PYTHONHASHSEED") != "0" and not os.environ.get("VERIF_KEEP_HASHSEED"):
        os.environ["PYTHONHASHSEED"] = "0"
        os.execv(sys.executable, [sys.executable, os.path.join(VERIF, "sim", "check_main.py")] + sys.argv[1:])

    import importlib
    prop = importlib.import_module(prop_module).PROPERTY
    prop.san = a.san
    prop.instr = a.instr
    t_start = time.time()
    try:
        runner.ensure_built(a.san)
    except runner.HarnessError as e:
        print("HARNESS_ERROR property=%s %s" % (prop.id, e))
        return 2

    if a.replay:
        return replay(prop, a.replay)
    t_batch = time.time()       # the run budget starts once the tree is built

    base_seed = int(os.environ.get("VERIF_SEED", "20260923"))
    runs = a.runs if a.runs is not None else (prop.quick_runs if tier == "quick" else None)
    budget = a.budget if a.budget is not None else (float(os.environ.get("VERIF_BUDGET_S", prop.thorough_budget_s)) if tier == "thorough" else getattr(prop, "quick_budget_s", 150))

    totals = {}
    digests = {}
    shapes = set()
    n_runs = 0
    n_nontrivial = 0
    violations = []
    herrors = []
    samples = []
    known_hits = {}
    known = [k for k in load_known() if k.get("property") == prop.id and k.get("status") == "open"]
    ctx = multiprocessing.get_context("fork")
    i = 0
    chunk = max(a.workers * 4, 32)
    ex = ProcessPoolExecutor(a.workers, mp_context=ctx, initializer=_init_worker, initargs=(prop_module, a.san, a.instr))
    try:
        while True:
            if runs is not None and i >= runs:
                break
            if time.time() - t_batch > budget:
                break
            n = chunk if runs is None else min(chunk, runs - i)
            futs = [ex.submit(_work, (seed_for(base_seed, prop.id, i + j), i + j)) for j in range(n)]
            i += n
            for f in as_completed(futs, timeout=900):
                r = f.result()
                n_runs += 1
                for k, v in r["stats"].items():
                    if isinstance(v, dict):
                        d = totals.setdefault(k, {})
                        for kk, vv in v.items():
                            d[kk] = d.get(kk, 0) + vv
                    else:
                        totals[k] = totals.get(k, 0) + v
                if r["harness_error"]:
                    herrors.append(r)
                    continue
                digests[r["seed"]] = r["digest"]
                if r["nontrivial"]:
                    n_nontrivial += 1
                    if r["shape"] is not None:
                        shapes.add(r["shape"])
                if r["sample"] is not None and len(samples) < 3:
                    samples.append(r["sample"])
                if r["violation"]:
                    kf = r["violation"].get("known")
                    if kf and any(k["id"] == kf for k in known):
                        known_hits[kf] = known_hits.get(kf, 0) + 1
                    else:
                        violations.append(r)
            if violations or len(herrors) > 5:
                break
    finally:
        ex.shutdown(wait=False, cancel_futures=True)

    # determinism recheck: a sample of seeds is run again (fresh worker state) and the digests must agree
    recheck_n = 0
    recheck_bad = []
    if not violations and not herrors:
        sample_seeds = sorted(digests)[:: max(1, len(digests) // max(3, len(digests) // 100))][:40]
        for s in sample_seeds:
            out = prop.run(prop.gen(s))
            recheck_n += 1
            if out.digest != digests[s]:
                recheck_bad.append(s)

    wall = time.time() - t_start
    rc = 0
    replay_paths = []
    if violations:
        rc = 1
        os.makedirs(os.path.join(VERIF, "replays"), exist_ok=True)
        v = sorted(violations, key=lambda r: r["idx"])[0]
        clause = v["violation"]["clause"]
        small = shrink_case(prop, v["case"], clause) if hasattr(prop, "shrink") else v["case"]
        sched_info = None
        if hasattr(prop, "shrink_schedule"):
            try:
                small, sched_info = prop.shrink_schedule(small, clause)
            except Exception as ex:          # minimisation is best effort: the seeded case is a valid replay on its own
                sched_info = dict(error=str(ex)[:200])
        out = prop.run(small, fresh=True)
        if not (out.violation and out.violation["clause"] == clause):
            # fall back to the unshrunk case; if that does not reproduce in a fresh process it is nondeterminism (my bug)
            small = v["case"]
            out = prop.run(small, fresh=True)
        path = os.path.join(VERIF, "replays", "%s-%d.json" % (prop.id, v["seed"]))
        if out.violation and out.violation["clause"] == clause:
            json.dump(dict(property=prop.id, clause=clause, seed=v["seed"], detail=out.violation.get("detail"), case=small,
                           scenario=out.sample, digest=out.digest, schedule=sched_info), open(path, "w"), indent=1)
            print("VIOLATION property=%s replay=%s" % (prop.id, path))
            print("  clause: %s" % clause)
            print("  detail: %s" % str(out.violation.get("detail"))[:1500])
            if sched_info:
                print("  schedule: %s" % json.dumps(sched_info))
            replay_paths.append(path)
        else:
            print("HARNESS_ERROR property=%s violation of clause %s at seed %d did not reproduce in a fresh process" % (prop.id, clause, v["seed"]))
            rc = 2
    if herrors and rc == 0:
        rc = 2
        for r in herrors[:5]:
            print("HARNESS_ERROR property=%s seed=%d %s" % (prop.id, r["seed"], str(r["harness_error"])[:600]))
    if recheck_bad and rc == 0:
        rc = 2
        print("HARNESS_ERROR property=%s nondeterministic digests for seeds %s" % (prop.id, recheck_bad[:5]))
    for kf, n in sorted(known_hits.items()):
        desc = [k for k in known if k["id"] == kf][0]["what"]
        print("KNOWN-FINDING: property=%s %s (met %d times; %s)" % (prop.id, kf, n, desc))
    for k in known:
        if k["id"] not in known_hits and hasattr(prop, "demonstrate_known"):
            r = prop.demonstrate_known(k)
            if r:
                print("KNOWN-FINDING: property=%s %s (%s)" % (prop.id, k["id"], k["what"]))
                known_hits[k["id"]] = 1

    # thorough tier of the thread-simulating properties: a second pass on the instrumented build (pre-emption points
    # at function-call granularity inside the engine); its verdict counts, its summary goes into the evidence
    instr_pass = None
    if tier == "thorough" and getattr(prop, "instr_in_thorough", False) and not a.instr and not a.san and rc == 0 and not a.replay:
        import subprocess
        cmd = [sys.executable, os.path.join(VERIF, "sim", "check_main.py"), prop.id, "--tier", "thorough", "--instr", "--no-evidence",
               "--budget", str(max(60.0, budget * 0.5)), "--workers", str(a.workers)]
        p2 = subprocess.run(cmd, capture_output=True, text=True)
        for line in p2.stdout.splitlines():
            if line.startswith(("VIOLATION", "  clause", "  detail", "  schedule", "HARNESS_ERROR")):
                print(line)
        summary = [l for l in p2.stdout.splitlines() if " tier=" in l]
        instr_pass = dict(rc=p2.returncode, summary=summary[-1] if summary else "(no summary)")
        for l in p2.stdout.splitlines():
            if l.startswith("instr_totals_json="):
                try:
                    instr_pass["totals"] = json.loads(l[len("instr_totals_json="):])      # incl. the site sweeps' counters
                except ValueError:
                    pass
        if p2.returncode != 0:
            rc = p2.returncode

    if not a.no_evidence:
        cov = dict(evaluations=n_runs, distinct_nontrivial=len(shapes) if shapes else n_nontrivial, rule=prop.rule, samples=samples or ["(none)"],
                   runs_per_hour=int(n_runs / max(wall, 1e-6) * 3600), seeds=dict(base=base_seed, count=i), totals=totals,
                   determinism_recheck="%d/%d" % (recheck_n - len(recheck_bad), recheck_n), harness_errors=len(herrors),
                   known_findings_met=known_hits, components=COMPONENTS, workers=a.workers)
        if getattr(prop, "exhaustive_note", None):
            cov["exhaustive_note"] = prop.exhaustive_note
        if instr_pass:
            cov["instrumented_build_pass"] = instr_pass
        ev = dict(property_id=prop.id, tier=tier, seed=base_seed, level=prop.level, coverage=cov,
                  assumptions=getattr(prop, "assumptions", []), wall_s=round(wall, 2), violations=len(violations))
        os.makedirs(os.path.join(VERIF, "evidence"), exist_ok=True)
        tmp = os.path.join(VERIF, "evidence", "%s.json.tmp" % prop.id)
        json.dump(ev, open(tmp, "w"), indent=1, default=str)
        os.replace(tmp, os.path.join(VERIF, "evidence", "%s.json" % prop.id))
    if a.instr:
        print("instr_totals_json=" + json.dumps(totals, default=str))
    dod = hashlib.sha256(json.dumps(sorted(digests.items())).encode()).hexdigest()[:16]
    print("%s digest_of_digests=%s" % (prop.id, dod))
    print("%s tier=%s runs=%d nontrivial=%d distinct=%d violations=%d harness_errors=%d wall=%.1fs rc=%d" % (
        prop.id, tier, n_runs, n_nontrivial, len(shapes), len(violations), len(herrors), wall, rc))
    return rc


def replay(prop, path):
    rec = json.load(open(path))
    out = prop.run(rec["case"], fresh=True)
    if out.harness_error:
        print("HARNESS_ERROR property=%s replay: %s" % (prop.id, out.harness_error))
        return 2
    if out.violation:
        same = out.violation["clause"] == rec["clause"]
        print("VIOLATION property=%s replay=%s" % (prop.id, path))
        print("  clause: %s%s" % (out.violation["clause"], "" if same else " (recorded: %s)" % rec["clause"]))
        print("  detail: %s" % str(out.violation.get("detail"))[:1500])
        print("  digest: %s (recorded %s)%s" % (out.digest, rec.get("digest"), " identical" if out.digest == rec.get("digest") else ""))
        return 1
    print("replay of %s: property held (no violation reproduced)" % path)
    return 0
