"""C05 - collection deltas are coherent with collection values at every tick."""
import random

import coll
import oracle_coll as oc
import runner
from framework import Outcome
from p_c04 import CollProperty


F6 = "F6-tsd-key-removed-and-recreated-in-one-cycle-keeps-old-child"


class C05(CollProperty):
    id = "C05"
    quick_runs = 1500
    quick_budget_s = 150
    thorough_budget_s = 900
    shapes = [s for s in coll.SHAPES if s not in ("TS", "TSStr", "SIGNAL")]
    rule = ("seeded mutation histories over TSS, TSD (incl. TSD<TSB>, TSD<TSD>, TSD<TSS>, TSD<Str,TSL>, TSD<TSW>, TSD<TSB{TS,TSS}>), TSL, TSL<TSS>, TSB, TSB{TS,TSS}, TSB{TS,TSL}, TSB{TS,TSB}, TSB{TS,TSW}, TSL<TSB>, TSW with Int and "
            "Str elements, written both through canonical deltas and through the authoring mutators; biased to add+remove of one new element in a "
            "cycle, remove+re-add of an existing one, update then remove, clear, several mutations of one element per cycle, key pools of 4/6/70 so "
            "that slot stores grow across capacity boundaries and reuse slots. Each output is read by a consumer on every tick (value, added, removed, "
            "modified items, canonical delta), by a consumer below a capture/apply mirror, and by a lazy consumer that reads only every 2nd/3rd tick. "
            "Oracle: value_t = value_(t-1) + delta_t from empty; added and removed disjoint; added present afterwards; removed absent afterwards and "
            "present before; nothing added that was already present; value equals the Python container model; a tick-count window holds exactly the "
            "last N pushes and is valid iff its minimum count is reached. non-trivial = >= 3 ticks checked; distinct = distinct (shapes, scripts)"
            " Round 3: 20% of the runs are stdlib::to_window graphs (duration and tick-count windows, resettable, sparse/dense push phases) checked against a reference model of contents, element times, validity and removed_value.")
    assumptions = ["a TSD entry whose child never became valid is not a published entry (linking_strategies.rst) and is ignored on both sides"]

    def gen(self, seed):
        rng = random.Random(seed)
        if rng.random() < 0.2:
            return dict(sc=coll.gen_window_family(rng))           # stdlib::to_window: duration and resettable windows
        return dict(sc=self.build(rng, with_lazy=True))

    def run(self, case, fresh=False):
        sc = coll.normalise(case["sc"])
        text, res = self.execute(sc, fresh)
        pre = self.precheck(text, res)
        if pre:
            return pre
        log = oc.parse_run(res.events, 0)
        v, stats = oc.check_coherence(sc, log)
        if sc.get("towins"):
            v2, s2 = oc.check_windows(sc, log)
            stats.update(s2)
            stats["ticks_checked"] += s2["window_ticks_checked"]
            v = v or v2
        stats["cycles"] = len(log["cycles"])
        stats["simulated_time_us"] = sc["window"][1]
        viol = dict(clause=v[0], detail=v[1]) if v else (dict(clause="known", detail=F6, known=F6) if stats.get("known_F6") else None)
        return Outcome(violation=viol, stats=stats, digest=res.digest, nontrivial=stats["ticks_checked"] >= 3,
                       sample=dict(scenario=text, log_head=res.raw[:1200]), shape=runner.h64(text))


PROPERTY = C05()
