"""C20 - recording a time-series and replaying it reproduces the same ticks."""
import random

import coll
import oracle_coll as oc
import runner
from framework import Outcome
from p_c04 import CollProperty


class C20(CollProperty):
    id = "C20"
    quick_runs = 1500
    quick_budget_s = 150
    thorough_budget_s = 900
    rule = ("schema library of 22 shapes (TS<Int>, TS<Str>, SIGNAL, TSS<Int|Str>, TSD<Int|Str,TS>, TSL, TSB, TSB{TS,TSS}, TSW, TSD<TSB>, TSD<TSD>, TSD<TSS>, "
            "TSL<TSS>, TSD<Str,TSL>, TSD<TSW>, TSD<TSB{TS,TSS}>, TSL<TSB>, TSB{TS,TSL}, TSB{TS,TSB}, TSB{TS,TSW}) x seeded tick histories with gaps, removals, child-only ticks, cancelling mutations. Run 1: writer -> record (B1) "
            "and writer -> mirror (apply_delta(out, capture_delta(in))) -> record (B1m); run 2 (fresh executor whose GlobalState is seeded with run 1's): "
            "replay(B1) -> record (B2). Oracle: B2 == B1 and B1m == B1 cycle for cycle (same cycles, same deltas); at every tick the mirror's value equals "
            "the writer's value. non-trivial = >= 2 recorded ticks; distinct = distinct (shapes, scripts)"
            " Round 3: 15% of the runs use the sparse (absolute-time) recording and replay it over a second-run window that begins before, on or after the first recorded tick: same cycles inside the window, same deltas when the whole recording is inside it.")
    assumptions = ["buffers are compared through the tree's own JSON value codec; list order inside added/removed is not significant"]

    SPARSE_SHAPES = ("TS", "TSStr", "TSL", "TSB", "TSBB", "TSLB")      # (no set / dictionary: empty structural ticks are finding F5)

    def gen_sparse(self, rng):
        """the absolute-time (sparse) recording and its replay over a window that begins at, before or after the first entry"""
        end = rng.choice((10, 16, 24))
        sc = dict(window=(0, end), writers=[], probes=[], cons=[], mirrors=[], records=[], replays=[], runs=2, pairs=[],
                  sreplays=[], srecords=[], scons=[], spairs=[])
        times = set()
        wid = 1
        for _ in range(rng.randint(1, 2)):
            shape = rng.choice(self.SPARSE_SHAPES)
            w = coll.gen_writer(rng, wid, shape, end)
            for off in w["script"]:
                w["script"][off] = [o for o in w["script"][off] if o[0] != "inv"] or [["d", coll.jd(coll.gen_delta(coll.SHAPES[shape], coll.fresh(coll.SHAPES[shape]), rng))]]
            w["run"] = 0
            sc["writers"].append(w)
            times |= set(int(t) for t in w["script"])
            sc["srecords"].append(dict(key="k%d" % wid, src=wid, rid="book", run=0))
            rid = wid * 10 + 7
            sc["sreplays"].append(dict(id=rid, shape=shape, key="k%d" % wid, rid="book", run=1))
            sc["scons"].append(dict(id=wid * 10 + 8, src=rid, run=1))
            sc["srecords"].append(dict(key="k%d" % wid, src=rid, rid="again", run=1))
            sc["spairs"].append(dict(b1="book.k%d" % wid, b2="again.k%d" % wid, cons=wid * 10 + 8, shape=shape))
            wid += 1
        ts = sorted(times)
        r = rng.random()
        if r < 0.3 or not ts:
            s2 = 0
        elif r < 0.65:
            s2 = rng.choice(ts)                      # the window begins on a recorded tick
        else:
            s2 = min(end - 1, rng.choice(ts) + 1)     # ... or just after one (often inside a gap)
        sc["window2"] = (s2, rng.choice((end, end, max(s2 + 1, end - 3))))
        return sc

    def gen(self, seed):
        rng = random.Random(seed)
        if random.Random(seed ^ 0x20C).random() < 0.15:
            return dict(sc=self.gen_sparse(rng))
        end = rng.choice((8, 14, 24))
        sc = dict(window=(0, end), writers=[], probes=[], cons=[], mirrors=[], records=[], replays=[], runs=2, pairs=[])
        wid = 1
        for _ in range(rng.randint(1, 3)):
            shape = rng.choice(self.shapes)
            typed = shape in coll.TYPED and rng.random() < 0.3
            w = coll.gen_writer(rng, wid, shape, end, typed=typed)
            # recordings hold deltas, not invalidations
            for off in w["script"]:
                w["script"][off] = [o for o in w["script"][off] if o[0] != "inv"] or [["d", coll.jd(coll.gen_delta(coll.SHAPES[shape], coll.fresh(coll.SHAPES[shape]), rng))]]
            w["run"] = 0
            sc["writers"].append(w)
            mid = wid * 10 + 5
            sc["mirrors"].append(dict(id=mid, src=wid, run=0))
            sc["records"].append(dict(key="B1_%d" % wid, src=wid, run=0))
            sc["records"].append(dict(key="B1m_%d" % wid, src=mid, run=0))
            rid = wid * 10 + 7
            sc["replays"].append(dict(id=rid, shape=shape, key="B1_%d" % wid, run=1))
            sc["records"].append(dict(key="B2_%d" % wid, src=rid, run=1))
            sc["pairs"].append(dict(b1="B1_%d" % wid, b1m="B1m_%d" % wid, b2="B2_%d" % wid))
            wid += 1
        return dict(sc=sc)

    def run(self, case, fresh=False):
        sc = coll.normalise(case["sc"])
        text, res = self.execute(sc, fresh)
        pre = self.precheck(text, res)
        if pre:
            return pre
        log0 = oc.parse_run(res.events, 0)
        log1 = oc.parse_run(res.events, 1)
        v, stats, known = oc.check_record_replay(sc, log0, log1)
        if sc.get("spairs"):
            v2, s2 = oc.check_sparse_replay(sc, log0, log1)
            stats.update({k: stats.get(k, 0) + x for k, x in s2.items()})
            v = v or v2
        stats["cycles"] = len(log0["cycles"]) + len(log1["cycles"])
        stats["simulated_time_us"] = sc["window"][1] * 2
        viol = dict(clause=v[0], detail=v[1]) if v else (dict(clause="known", detail=known, known=known) if known else None)
        return Outcome(violation=viol, stats=stats, digest=res.digest, nontrivial=stats["recorded_ticks"] >= 2,
                       sample=dict(scenario=text, log_head=res.raw[:1200]), shape=runner.h64(text))

    def shrink(self, case):
        sc = coll.normalise(case["sc"])
        for i, w in enumerate(sc["writers"]):
            if len(sc["writers"]) > 1:
                q = dict(sc)
                wid = w["id"]
                import copy
                q = copy.deepcopy(sc)
                del q["writers"][i]
                mids = {m["id"] for m in q["mirrors"] if m["src"] == wid}
                q["mirrors"] = [m for m in q["mirrors"] if m["src"] != wid]
                rids = {r["id"] for r in q["replays"] if r["key"] == "B1_%d" % wid}
                q["replays"] = [r for r in q["replays"] if r["id"] not in rids]
                q["records"] = [r for r in q["records"] if r["src"] not in (mids | rids | {wid})]
                q["pairs"] = [p for p in q["pairs"] if p["b1"] != "B1_%d" % wid]
                yield dict(sc=q)
        import copy
        for i, w in enumerate(sc["writers"]):
            for off in sorted(w["script"]):
                if len(w["script"]) > 1:
                    q = copy.deepcopy(sc)
                    del q["writers"][i]["script"][off]
                    yield dict(sc=q)
                for j in range(len(w["script"][off])):
                    if len(w["script"][off]) > 1:
                        q = copy.deepcopy(sc)
                        del q["writers"][i]["script"][off][j]
                        yield dict(sc=q)


PROPERTY = C20()
