"""C07 - simulation runs are reproducible and isolated from each other."""
import copy
import json
import random

import dataflow
import gen_dataflow
import runner
from framework import Outcome


def canon(events, drop_tags=True):
    out = []
    for e in events:
        if e["k"] in ("hdr", "end", "run", "phase", "wire"):
            continue
        if e["k"] == "wire_error":
            e = {"k": "wire_error"}
        e = {k: v for k, v in e.items() if k != "x"}
        out.append(json.dumps(e, sort_keys=True))
    return out


def first_diff(a, b):
    for i, (x, y) in enumerate(zip(a, b)):
        if x != y:
            return "line %d: %s | %s" % (i, x[:160], y[:160])
    if len(a) != len(b):
        return "length %d vs %d; extra: %s" % (len(a), len(b), (a[len(b):] or b[len(a):])[0][:200])
    return None


def gen_stateful(rng, size=None):
    prog = gen_dataflow.gen_program(rng.getrandbits(48), size=size or rng.randint(3, 14))
    s, e = prog["window"]
    prog["window"] = (s, min(e, s + 20))
    ports = [n["name"] for n in prog["nodes"] if n["kind"] not in ("feedback", "delayed")]
    # nodes that write and read GlobalState (state isolation between runs)
    # (the key text differs between programs: concurrent executors then look up different keys)
    base = rng.choice((70, 3170, 3270, 3370, 3470))
    for k in range(rng.choice((0, 1, 2))):
        prog["sinks"].append(dict(kind="gsink", id=base + k, port=rng.choice(ports)))
        nm = "gr%d" % k
        prog["nodes"].append(dict(name=nm, kind="gsread", args=[rng.choice(ports)], id=base + k))
        prog["sinks"].append(dict(kind="recu", id=950 + k, port=nm))
    if rng.random() < 0.5:
        prog["gs"] = {"k%d" % base: rng.randint(100, 200)}
    # error capture with seeded diagnostic options (process-wide interning of capturing node types)
    if rng.random() < 0.4:
        cands = [n for n in prog["nodes"] if n["kind"] in ("c1", "c2", "c3", "accum", "sample", "samplemid") and n.get("id")]
        rng.shuffle(cands)
        for j, n in enumerate(cands[:rng.choice((1, 2))]):
            prog["sinks"].append(dict(kind="err", id=820 + j, port=n["name"], depth=rng.choice((1, 1, 2, 3)), values=rng.choice((0, 1))))
    return prog


def capture_twin(S, rng):
    """S with other diagnostic options on every error capture (same node types, different ErrorCaptureOptions)"""
    q = copy.deepcopy(S)
    for s in q["sinks"]:
        if s["kind"] == "err":
            s["depth"] = rng.choice([d for d in (1, 2, 3) if d != s.get("depth", 1)])
            s["values"] = 1 - s.get("values", 0)
    return q


class C07:
    id = "C07"
    instr_in_thorough = True      # thorough tier: second pass on the -finstrument-functions build (DESIGN 2.3)
    level = "exploration"
    quick_runs = 250
    quick_budget_s = 150
    thorough_budget_s = 900
    san = False
    rule = ("scenario S (seeded stateful program: node state, GlobalState writers/readers with a seeded builder GlobalState, feedback, nested "
            "children) is run alone in a fresh process -> reference trace T(S) (every evaluation, value, lifecycle event and the final GlobalState). "
            "Then, each compared line by line with T(S): (a) process history - S after j in 1..6 other seeded scenarios were wired and run in the same "
            "process; (b) builder reuse - one GraphExecutorBuilder, make_executor() k in 2..4 times, each run to completion, including runs that fail "
            "with an injected fault, and (40% of the runs) with wiring, make_executor and run inside a GlobalContext whose live state receives every "
            "run's final state; error captures carry seeded diagnostic options and S-with-other-options is part of the history; (c) wall clock - stall/coarse-clock faults; (d) concurrency - 2-4 independent executors (S with copies of itself "
            "and/or other scenarios; graphs wired beforehand, make_executor()+run()+release concurrent) on simulated threads pre-empted at every "
            "intercepted mutex operation and at every node evaluation under a seeded scheduler. non-trivial = S has >= 3 evaluations; distinct = "
            "distinct (S shape, variation parameters, interleaving hash)"
            " Round 3: 12% of the runs are a carry family (two runs sharing state through the builder seed, the second recording a late or silent writer under the first run s key; differential); the instrumented pass sweeps a sample of call sites of the concurrent section.")
    assumptions = ["baton passing makes every step atomic between interception points: word-level data races and weak-memory effects are out of reach (DESIGN section 5)"]

    def gen_text_case(self, rng):
        """S from the collections / higher_order modes (record buffers, dynamic children): history variation only"""
        import p_c10, p_c20, ho, coll
        def one():
            if rng.random() < 0.5:
                c = p_c10.PROPERTY.gen(rng.getrandbits(48))
                return ho.emit(ho.normalise(c["sc"]))
            c = p_c20.PROPERTY.gen(rng.getrandbits(48))
            return coll.emit(coll.normalise(c["sc"]))
        return dict(kind="text", S=one(), others=[one() for _ in range(rng.randint(1, 5))])

    def gen_carry_case(self, rng):
        """state carried from one run to the next through the builder's seed: run 1 records an early-ticking writer under a key, run 2
        (a fresh executor whose GlobalState is seeded with run 1's final state) records another writer - one that first ticks late,
        or never - under the SAME key. Run 2's recording must be what it is when run 1 recorded under some other key."""
        import coll
        shape = rng.choice(("TS", "TS", "TSS", "TSD", "TSL", "TSB"))
        end0 = rng.choice((6, 10))
        a = coll.gen_writer(rng, 1, shape, end0)
        b = coll.gen_writer(rng, 2, shape, end0)
        for w in (a, b):
            for off in w["script"]:
                w["script"][off] = [o for o in w["script"][off] if o[0] != "inv"] or [["d", coll.jd(coll.gen_delta(coll.SHAPES[shape], coll.fresh(coll.SHAPES[shape]), rng))]]
        last_a = max(int(t) for t in a["script"])
        r = rng.random()
        if r < 0.2:
            b["script"] = {}                                   # the second run's output never ticks
        else:
            shift = rng.choice((0, 0, last_a, last_a + 1, last_a + 3))    # ... or first ticks before / at / beyond the end of run 1's recording
            b["script"] = {int(t) + shift: ops for t, ops in b["script"].items()}
        end = max([end0] + [t + 1 for t in b["script"]]) + 1
        a["run"], b["run"] = 0, 1
        sc = dict(window=(0, end), runs=2, writers=[a, b], probes=[], cons=[], mirrors=[], replays=[],
                  records=[dict(key="K", src=1, run=0), dict(key="K", src=2, run=1)])
        return dict(kind="carry", sc=sc)

    def run_carry(self, case, fresh):
        import coll
        sc = coll.normalise(case["sc"])
        if len(sc["writers"]) < 2 or len(sc["records"]) < 2:
            return Outcome(stats={}, nontrivial=False)
        text = coll.emit(sc)
        alt = copy.deepcopy(sc)
        alt["records"][0]["key"] = "K0"
        text_alt = coll.emit(alt)
        run = (lambda t: runner.run_fresh(t, san=self.san)) if fresh else (lambda t: runner.run(t, san=self.san))
        r1, r2 = run(text), run(text_alt)
        for r in (r1, r2):
            if not r.ok:
                return Outcome(harness_error="harness status=%s signal=%s timeout=%s" % (r.status, r.signal, r.timeout), sample=text)
        def buf(res):
            return [e["v"] for e in res.events if e["k"] == "buf" and e["r"] == 1 and e["key"] == "K"]
        b1, b2 = buf(r1), buf(r2)
        v = None
        if b1 != b2:
            v = ("state_carried_between_runs", "second run recorded %s under key K after the first run had recorded under the same key; with the first run recording under another key it records %s" % (
                json.dumps(b1)[:300], json.dumps(b2)[:300]))
        last_a = max([int(t) for t in sc["writers"][0]["script"]] or [0])
        first_b = min([int(t) for t in sc["writers"][1]["script"]] or [10 ** 9])
        stats = dict(variations=1, carry_cases=1, probe_second_run_ticks_beyond_first_recording=1 if first_b > last_a else 0,
                     probe_second_run_never_ticks=1 if first_b == 10 ** 9 else 0, faults_fired={"F7_process_history": 1})
        return Outcome(violation=dict(clause=v[0], detail=v[1]) if v else None, stats=stats, digest=r1.digest, nontrivial=True,
                       sample=dict(scenario=text[:1500]), shape=runner.h64(text))

    def run_text(self, case, fresh):
        text = case["S"]
        ref = runner.run_fresh(text, san=self.san)
        if not ref.ok:
            return Outcome(harness_error="harness status=%s signal=%s timeout=%s" % (ref.status, ref.signal, ref.timeout), sample=text)
        T = canon(ref.events)
        srv = runner.Server(runner.ensure_built(self.san))
        try:
            for o in case.get("others", []):
                r = srv.run("NOFORK\n" + o)
                if r.timeout:
                    return Outcome(harness_error="timeout in history scenario", sample=text)
            r = srv.run("NOFORK\n" + text)
        finally:
            srv.kill()
        v = None
        if not r.ok:
            v = ("crash_after_history", "status=%s signal=%s" % (r.status, r.signal))
        else:
            d = first_diff(T, canon(r.events))
            if d:
                v = ("history_dependence", "after %d earlier scenarios (dynamic children, record buffers) in the same process the trace differs: %s" % (len(case.get("others", [])), d))
        stats = dict(variations=1, history_scenarios=len(case.get("others", [])), faults_fired={"F7_process_history": len(case.get("others", []))},
                     probe_dynamic_children_or_record_buffers=1)
        return Outcome(violation=dict(clause=v[0], detail=v[1]) if v else None, stats=stats, digest=ref.digest, nontrivial=len(T) > 10,
                       sample=dict(scenario=text[:1500]), shape=runner.h64(text))

    def gen(self, seed):
        rng = random.Random(seed)
        if random.Random(seed ^ 0xCA77).random() < 0.12:
            return self.gen_carry_case(rng)
        if rng.random() < 0.25:
            return self.gen_text_case(rng)
        S = gen_stateful(rng)
        others = [gen_stateful(rng, size=rng.randint(2, 10)) for _ in range(rng.randint(1, 6))]
        fault = None
        captured = [n["id"] for n in S["nodes"] for s in S["sinks"] if s["kind"] == "err" and s["port"] == n["name"]]
        if captured:
            # the captured node throws (the error output carries the requested diagnostics), and one of the earlier scenarios
            # in the process is S itself with other capture options
            fault = (rng.choice(captured), "eval", rng.randint(1, 2))
            others.insert(rng.randrange(len(others) + 1), capture_twin(S, rng))
        elif rng.random() < 0.3:
            ids = [n["id"] for n in S["nodes"] if n.get("id") and n["kind"] in ("c1", "c2", "c3", "accum", "source", "ticker")]
            if ids:
                fault = (rng.choice(ids), rng.choice(("eval", "eval", "start", "stop")), rng.randint(1, 2))
        return dict(S=S, others=others, repeat=rng.randint(2, 4), fault=fault, nconc=rng.randint(2, 4), simseed=rng.getrandbits(32),
                    instr=1 if getattr(self, "instr", False) else 0,
                    sweep=1 if getattr(self, "instr", False) and random.Random(seed ^ 0x5EE9).random() < 0.06 else 0,
                    gctx=1 if random.Random(seed ^ 0x6C7).random() < 0.4 else 0,
                    mix=rng.choice(("copies", "others", "mixed")),
                    clock=dict(seed=rng.getrandbits(32), stall_rate=rng.choice((0.05, 0.3)), stall_us=rng.choice((1000, 10 ** 7)), coarse=rng.choice((0, 1))))

    sweep_max_sites = 400       # (a seeded sample of the 10 000+ candidate pairs: one run of the section costs 0.2 - 0.4 s)

    def run_sweep(self, case):
        """site sweep of the concurrent section (instrumented build, DESIGN 2.3): a profile run lists every (call site, thread) pair
        entered while another executor's thread was runnable; the section is then run once per listed site with that call site as
        the only extra pre-emption point. The first violating run is the outcome (its case carries the site)."""
        import hashlib
        base = dict(case, only="concurrent", sweep=0, instr=1)
        self._last_sites = None
        out0 = self.run(dict(base, instr_profile=1))
        if out0.harness_error or out0.violation:
            return out0
        sites = self._last_sites or []
        total = len(sites)
        if total > self.sweep_max_sites:
            sites = sorted(random.Random(case["simseed"]).sample(sites, self.sweep_max_sites))
        agg = dict(out0.stats)
        agg.update(sweep_scenarios=1, sweep_candidate_sites=total, sweep_site_runs=0)
        h = hashlib.sha256(out0.digest.encode())
        for (addr, thread, entries, sym) in sites:
            out = self.run(dict(base, instr_site=addr))
            agg["sweep_site_runs"] += 1
            if out.harness_error:
                return out
            agg["scheduler_steps"] = agg.get("scheduler_steps", 0) + out.stats.get("scheduler_steps", 0)
            agg["instr_preemption_points"] = agg.get("instr_preemption_points", 0) + out.stats.get("instr_preemption_points", 0)
            if out.violation:
                out.violation["detail"] = "[site sweep: only extra pre-emption point is call site 0x%s (%s)] %s" % (addr, sym or "?", out.violation.get("detail"))
                out.stats = agg
                out.case = dict(base, instr_site=addr)
                return out
        return Outcome(stats=agg, digest=h.hexdigest()[:16], nontrivial=True, sample=out0.sample, shape=out0.shape)

    def run(self, case, fresh=False):
        if case.get("kind") == "text":
            return self.run_text(case, fresh)
        if case.get("kind") == "carry":
            return self.run_carry(case, fresh)
        if case.get("sweep") and not fresh and not case.get("instr_site") and (getattr(self, "instr", False) or case.get("instr")):
            return self.run_sweep(case)
        S = dataflow.normalise(case["S"])
        if case.get("fault"):
            S["faults"] = [tuple(case["fault"])]
        if case.get("gctx"):
            # wiring, make_executor and run inside a GlobalContext selected on the thread (final state copied back to the
            # live state after every run, as testing::eval_node / lower() do)
            S["options"] = dict(S.get("options", {}), gctx=1)
        text = dataflow.emit(S)
        cache = getattr(self, "_ref_cache", None)
        if cache is None or cache[0] != text or fresh:
            ref = runner.run_fresh(text, san=self.san)
            self._ref_cache = (text, ref)         # (a sweep runs the same scenario thousands of times: one reference run)
        else:
            ref = cache[1]
        if not ref.ok:
            return Outcome(harness_error="harness status=%s signal=%s timeout=%s tail=%s" % (ref.status, ref.signal, ref.timeout, ref.raw[-300:]), sample=text)
        for e in ref.events:
            if e["k"] in ("harness_error",):
                return Outcome(harness_error="%s: %s" % (e["k"], e.get("what")), sample=text)
        T = canon(ref.events)
        sample = dict(scenario=text)
        stats = dict(variations=0, history_scenarios=0, builder_reuses=0, concurrent_executors=0, scheduler_steps=0, preemptions=0, mutex_blocks=0,
                     faults_fired={"F2_wall_clock": 0, "F1_failed_run_before_reuse": 0, "F3_preemption": 0, "F7_process_history": 0},
                     simulated_time_us=S["window"][1] - S["window"][0])
        v = None
        ihash = 0
        want = case.get("only")
        # (a) process history
        if not v and want in (None, "history"):
            srv = runner.Server(runner.ensure_built(self.san))
            try:
                for o in case.get("others", []):
                    o = dataflow.normalise(o)
                    if case.get("gctx"):
                        o["options"] = dict(o.get("options", {}), gctx=1)
                    r = srv.run("NOFORK\n" + dataflow.emit(o))
                    if r.timeout:
                        return Outcome(harness_error="timeout in history scenario", sample=text)
                    stats["history_scenarios"] += 1
                r = srv.run("NOFORK\n" + text)
            finally:
                srv.kill()
            if not r.ok:
                v = ("crash_after_history", "status=%s signal=%s" % (r.status, r.signal))
            else:
                d = first_diff(T, canon(r.events))
                if d:
                    v = ("history_dependence", "after %d earlier scenarios in the same process the trace differs: %s" % (len(case.get("others", [])), d))
            stats["variations"] += 1
            stats["faults_fired"]["F7_process_history"] += len(case.get("others", []))
        # (b) builder reuse
        if not v and want in (None, "reuse"):
            p = copy.deepcopy(S)
            p["options"] = dict(p.get("options", {}), repeat=case["repeat"])
            r = runner.run(dataflow.emit(p), san=self.san)
            if not r.ok:
                v = ("crash_on_reuse", "status=%s signal=%s" % (r.status, r.signal))
            else:
                sections = []
                for e in r.events:
                    if e["k"] == "run":
                        sections.append([])
                    elif sections:
                        sections[-1].append(e)
                # the wiring part is emitted once: compare the run part of T(S)
                Trun = [l for l in T if '"k": "wire_error"' not in l]
                for i, sec in enumerate(sections):
                    d = first_diff(Trun, canon(sec))
                    if d:
                        v = ("builder_reuse_dependence", "run %d of %d from one executor builder differs from the fresh run: %s" % (i + 1, len(sections), d))
                        break
                stats["builder_reuses"] += len(sections)
                if case.get("fault"):
                    stats["faults_fired"]["F1_failed_run_before_reuse"] += len(sections)
            stats["variations"] += 1
        # (c) wall clock
        if not v and want in (None, "clock"):
            p = copy.deepcopy(S)
            p["clock"] = case["clock"]
            r = runner.run(dataflow.emit(p), san=self.san)
            if not r.ok:
                v = ("crash_under_clock_faults", "status=%s" % r.status)
            else:
                d = first_diff(T, canon(r.events))
                if d:
                    v = ("wall_clock_dependence", d)
                stats["faults_fired"]["F2_wall_clock"] += [e for e in r.events if e["k"] == "end"][0].get("clock_faults", 0)
            stats["variations"] += 1
        # (d) concurrency
        if not v and want in (None, "concurrent"):
            n = case["nconc"]
            progs = [S]
            others = [dataflow.normalise(o) for o in case.get("others", [])]
            for i in range(1, n):
                if case["mix"] == "copies" or not others:
                    progs.append(S)
                elif case["mix"] == "others":
                    progs.append(others[(i - 1) % len(others)])
                else:
                    progs.append(S if i % 2 else others[(i - 1) % len(others)])
            ctext = "mode concurrent\nsimseed %d\n" % case["simseed"]
            if case.get("simtape") is not None:
                ctext += "simtape " + ",".join(str(x) for x in case["simtape"]) + "\n"     # explicit (minimised) interleaving
            if case.get("emit_simtape"):
                ctext += "emit_simtape\n"
            variant = self.san
            if getattr(self, "instr", False) or case.get("instr"):
                # instrumented build: extra pre-emption points inside engine code, on average every <n> function calls
                r = random.Random(case["simseed"])
                if case.get("instr_profile") or case.get("instr_site"):
                    ctext += "instr 2000 0 %s\n" % ("profile" if case.get("instr_profile") else "site=%s" % case["instr_site"])
                else:
                    ctext += "instr %d %d\n" % (r.choice((20, 100, 400, 2000)), r.choice((0, 30, 100, 300, -3000, -8000)))
                variant = "instr"
            for i, p in enumerate(progs):
                # (a GlobalContext is a per-thread selection: the concurrent executors run without one)
                q = dict(p, options={k: x for k, x in p.get("options", {}).items() if k != "gctx"})
                ctext += "=== %d\n" % i + dataflow.emit(q)
            r = runner.run_fresh(ctext, san=variant) if fresh else runner.run(ctext, san=variant, timeout=40)
            if not r.ok:
                if r.timeout:
                    return Outcome(harness_error="timeout in concurrent run", sample=dict(scenario=ctext))
                if r.status == 4 and '"what":"step limit"' in r.raw:
                    # the simulator's own step budget ran out (many executors x dense pre-emption): a limit of the harness
                    return Outcome(harness_error="simulator step limit in the concurrent section", sample=dict(scenario=ctext[:1500]))
                v = ("crash_when_concurrent", "status=%s signal=%s tail=%s" % (r.status, r.signal, r.raw[-300:]))
            else:
                phase = None
                parts = {}
                for e in r.events:
                    if e["k"] == "sites":
                        self._last_sites = [tuple(x) for x in e["v"]]
                    if e["k"] == "tape":
                        self._last_tape = [int(x) for x in e["v"].split(",")] if e["v"] else []
                    if e["k"] == "phase":
                        phase = e["p"]
                    elif phase and "x" in e:
                        parts.setdefault((phase, e["x"]), []).append(e)
                for i, p in enumerate(progs):
                    solo = canon(parts.get(("solo", i), []))
                    conc = canon(parts.get(("concurrent", i), []))
                    d = first_diff(solo, conc)
                    if d:
                        v = ("concurrency_dependence", "executor %d of %d: trace while %d other executors run differs from its solo trace: %s" % (i, n, n - 1, d))
                        break
                    if p is S:
                        # and the solo in-process trace equals the fresh-process reference (minus the wiring line)
                        d = first_diff([l for l in T], solo)
                        if d:
                            v = ("history_dependence", "solo run inside the concurrent harness differs from the fresh run: %s" % d)
                            break
                end = [e for e in r.events if e["k"] == "end"]
                if end:
                    stats["scheduler_steps"] += end[0].get("steps", 0)
                    stats["preemptions"] += end[0].get("preemptions", 0)
                    stats["mutex_blocks"] += end[0].get("mutex_blocks", 0)
                    stats["instr_preemption_points"] = stats.get("instr_preemption_points", 0) + end[0].get("instr_points", 0)
                    stats["faults_fired"]["F3_preemption"] += end[0].get("preemptions", 0)
                    ihash = end[0].get("trace_hash")
                stats["concurrent_executors"] += n
                sample["concurrent"] = ctext[:1500]
            stats["variations"] += 1
        n_ev = sum(1 for e in ref.events if e["k"] == "ev")
        return Outcome(violation=dict(clause=v[0], detail=v[1]) if v else None, stats=stats, digest=ref.digest, nontrivial=n_ev >= 3, sample=sample,
                       shape=runner.h64(dataflow.shape_key(S), case["repeat"], case["nconc"], ihash))

    def shrink_schedule(self, case, clause):
        """concurrency clauses only: record the seeded interleaving of the concurrent section as a tape, pin it, minimise it
        (threads.shrink_tape); the replay then carries the explicit interleaving instead of depending on simseed."""
        if case.get("kind") == "text" or clause not in ("concurrency_dependence", "crash_when_concurrent") or case.get("simtape") is not None:
            return case, None
        import threads as th
        c0 = dict(case, only="concurrent")
        self._last_tape = None
        out = self.run(dict(c0, emit_simtape=1))
        tape = self._last_tape
        if tape is None:
            return case, None

        def run_same(t):
            o = self.run(dict(c0, simtape=list(t)))
            return bool(o.violation) and o.violation["clause"] == clause and not o.harness_error

        if not run_same(tape):
            return case, dict(pinned=False, decisions=len(tape))
        small, runs = th.shrink_tape(run_same, tape, max_runs=150)
        return dict(c0, simtape=small), dict(pinned=True, decisions_recorded=len(tape), decisions_kept=len(small), non_default=sum(1 for x in small if x), shrink_runs=runs)

    def shrink(self, case):
        if case.get("kind") == "carry":
            import coll
            sc = coll.normalise(case["sc"])
            for i, w in enumerate(sc["writers"]):
                for off in sorted(w["script"]):
                    if len(w["script"]) > (1 if i == 0 else 0):
                        q = copy.deepcopy(sc)
                        del q["writers"][i]["script"][off]
                        yield dict(kind="carry", sc=q)
            return
        if case.get("kind") == "text":
            for i in range(len(case.get("others", []))):
                yield dict(case, others=case["others"][:i] + case["others"][i + 1:])
            return
        base = self.run(case)
        if not base.violation:
            return
        clause = base.violation["clause"]
        only = {"history_dependence": "history", "crash_after_history": "history", "builder_reuse_dependence": "reuse", "crash_on_reuse": "reuse",
                "wall_clock_dependence": "clock", "concurrency_dependence": "concurrent", "crash_when_concurrent": "concurrent"}.get(clause)
        if case.get("only") is None and only:
            yield dict(case, only=only)
            return
        if len(case.get("others", [])) > 0:
            for i in range(len(case["others"])):
                yield dict(case, others=case["others"][:i] + case["others"][i + 1:])
        if case.get("nconc", 2) > 2:
            yield dict(case, nconc=case["nconc"] - 1)
        if case.get("repeat", 2) > 2:
            yield dict(case, repeat=case["repeat"] - 1)
        for q in dataflow.shrink_program(dataflow.normalise(case["S"])):
            yield dict(case, S=q)


PROPERTY = C07()
