"""C04 - modified / valid / last-modified-time tell the truth for producers and consumers."""
import random

import coll
import oracle_coll as oc
import runner
from framework import Outcome


F16 = "F16-invalidation-flags-differ-between-producer-and-consumer"


class CollProperty:
    level = "exploration"
    san = False
    shapes = list(coll.SHAPES)

    def build(self, rng, n_writers=None, with_lazy=False, with_mirror=False):
        end = rng.choice((8, 14, 24))
        sc = dict(window=(0, end), writers=[], probes=[], cons=[], mirrors=[], records=[], replays=[], runs=1)
        wid = 1
        for _ in range(n_writers or rng.randint(1, 3)):
            shape = rng.choice(self.shapes)
            typed = shape in coll.TYPED and rng.random() < 0.4
            if "TSD" in self.shapes and rng.random() < 0.12:
                shape, typed = "TSD", True          # the authoring mutators of a dictionary (out[key], child outputs, erase, clear)
            sc["writers"].append(coll.gen_writer(rng, wid, shape, end, typed=typed, composite_inv=getattr(self, "composite_inv", False)))
            sc["probes"].append(dict(id=wid * 10 + 1, src=wid, until=end - 1))
            sc["cons"].append(dict(id=wid * 10 + 2, src=wid, every=1))
            if rng.random() < 0.5:
                sc["cons"].append(dict(id=wid * 10 + 3, src=wid, every=1))
            if with_lazy and rng.random() < 0.6:
                sc["cons"].append(dict(id=wid * 10 + 4, src=wid, every=rng.choice((2, 3))))
            # (a window below a dictionary or bundle loses its early pushes in capture_delta: finding F12, owned by C20 - no mirror here)
            if with_mirror or (rng.random() < 0.3 and not oc.window_below(coll.SHAPES[shape])):
                sc["mirrors"].append(dict(id=wid * 10 + 5, src=wid))
                sc["cons"].append(dict(id=wid * 10 + 6, src=wid * 10 + 5, every=1))
            wid += 1
        return sc

    def execute(self, sc, fresh):
        text = coll.emit(sc)
        res = runner.run_fresh(text, san=self.san) if fresh else runner.run(text, san=self.san)
        return text, res

    def precheck(self, text, res):
        if not res.ok:
            return Outcome(harness_error="harness status=%s signal=%s timeout=%s tail=%s" % (res.status, res.signal, res.timeout, res.raw[-300:]), sample=text)
        for e in res.events:
            if e["k"] in ("wire_error", "harness_error"):
                return Outcome(harness_error="%s: %s" % (e["k"], e.get("what")), sample=text)
        for e in res.events:
            if e["k"] == "ran" and e["run"] != "ok":
                return Outcome(violation=dict(clause="run_threw", detail=e.get("what", "")[:400]), digest=res.digest, sample=dict(scenario=text))
        return None

    def shrink(self, case):
        for q in coll.shrink(coll.normalise(case["sc"])):
            yield dict(sc=q)


class C04(CollProperty):
    id = "C04"
    composite_inv = True          # explicit invalidation also of bundles, lists, sets and dictionaries (flags only: C05 does not define their contents afterwards)
    quick_runs = 1500
    quick_budget_s = 150
    thorough_budget_s = 900
    rule = ("1-3 scripted writers per run over 22 time-series shapes (TS<Int>, TS<Str>, SIGNAL, TSS, TSD, TSL, TSB, TSW and the nestings TSD<TSB>, TSD<TSD>, "
            "TSD<TSS>, TSL<TSS>, TSD<Str,TSL>, TSD<TSW>, TSD<TSB{TS,TSS}>, TSL<TSB>, TSB{TS,TSS}, TSB{TS,TSL}, TSB{TS,TSB}, TSB{TS,TSW}) - an erased writer applying seeded canonical deltas through apply_delta and typed writers using "
            "the authoring API's own mutators (incl. dictionary entries written through their child outputs); per cycle: one write, several writes, child-only writes, no write, invalidation, key removal - each "
            "observed by 2-4 consumers: active consumers at different ranks and an always-awake probe whose input is passive + Unchecked and which "
            "wakes itself every cycle, so flags are also read in the cycles where nothing happened. Oracle (write-history model): modified <=> the "
            "producer wrote in this cycle; last_modified_time = latest write; valid from the first write until an invalidation; every consumer's "
            "value/modified/valid/lmt equal the producer's in every cycle; modified <=> lmt == now at every node of the tree; a parent is modified "
            "whenever a child is and a fixed-shape parent only then; outside its cycle delta_value()/added/removed/modified read nothing. non-trivial = "
            ">= 5 probe readings incl. a quiet cycle; distinct = distinct (shapes, scripts)")
    assumptions = ["'the producer wrote' is taken from the producer's own output view right after its mutators ran, cross-checked against the container model for effective writes"]

    def gen(self, seed):
        rng = random.Random(seed)
        return dict(sc=self.build(rng))

    def run(self, case, fresh=False):
        sc = coll.normalise(case["sc"])
        text, res = self.execute(sc, fresh)
        pre = self.precheck(text, res)
        if pre:
            return pre
        log = oc.parse_run(res.events, 0)
        v, stats = oc.check_flags(sc, log)
        stats["cycles"] = len(log["cycles"])
        stats["simulated_time_us"] = sc["window"][1]
        viol = dict(clause=v[0], detail=v[1]) if v else (dict(clause="known_class:F16", detail="producer and consumer disagree on modified / last_modified_time at an explicit invalidation", known=F16) if stats.get("known_F16") else None)
        return Outcome(violation=viol, stats=stats, digest=res.digest,
                       nontrivial=stats["probe_readings"] >= 5 and stats["probe_quiet_cycle_readings"] > 0,
                       sample=dict(scenario=text, log_head=res.raw[:1200]), shape=runner.h64(text))


PROPERTY = C04()
