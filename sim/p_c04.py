"""C04 - modified / valid / last-modified-time tell the truth for producers and consumers."""
import random

import coll
import oracle_coll as oc
import runner
from framework import Outcome


F16 = "F16-invalidation-flags-differ-between-producer-and-consumer"


class CollProperty:
    level = "exploration"
    san = False
    shapes = list(coll.SHAPES)

    def build(self, rng, n_writers=None, with_lazy=False, with_mirror=False):
        end = rng.choice((8, 14, 24))
        sc = dict(window=(0, end), writers=[], probes=[], cons=[], mirrors=[], records=[], replays=[], runs=1)
        wid = 1
        for _ in range(n_writers or rng.randint(1, 3)):
            shape = rng.choice(self.shapes)
            typed = shape in coll.TYPED and rng.random() < 0.4
            if "TSD" in self.shapes and rng.random() < 0.12:
                shape, typed = "TSD", True          # the authoring mutators of a dictionary (out[key], child outputs, erase, clear)
            sc["writers"].append(coll.gen_writer(rng, wid, shape, end, typed=typed, composite_inv=getattr(self, "composite_inv", False)))
            sc["probes"].append(dict(id=wid * 10 + 1, src=wid, until=end - 1))
            sc["cons"].append(dict(id=wid * 10 + 2, src=wid, every=1))
            if rng.random() < 0.5:
                sc["cons"].append(dict(id=wid * 10 + 3, src=wid, every=1))
            if with_lazy and rng.random() < 0.6:
                sc["cons"].append(dict(id=wid * 10 + 4, src=wid, every=rng.choice((2, 3))))
            # (a window below a dictionary or bundle loses its early pushes in capture_delta: finding F12, owned by C20 - no mirror here)
            if with_mirror or (rng.random() < 0.3 and not oc.window_below(coll.SHAPES[shape])):
                sc["mirrors"].append(dict(id=wid * 10 + 5, src=wid))
                sc["cons"].append(dict(id=wid * 10 + 6, src=wid * 10 + 5, every=1))
            wid += 1
        return sc

    def execute(self, sc, fresh):
        text = coll.emit(sc)
        res = runner.run_fresh(text, san=self.san) if fresh else runner.run(text, san=self.san)
        return text, res

    def precheck(self, text, res):
        if not res.ok:
            return Outcome(harness_error="harness status=%s signal=%s timeout=%s tail=%s" % (res.status, res.signal, res.timeout, res.raw[-300:]), sample=text)
        for e in res.events:
            if e["k"] in ("wire_error", "harness_error"):
                return Outcome(harness_error="%s: %s" % (e["k"], e.get("what")), sample=text)
        for e in res.events:
            if e["k"] == "ran" and e["run"] != "ok":
                return Outcome(violation=dict(clause="run_threw", detail=e.get("what", "")[:400]), digest=res.digest, sample=dict(scenario=text))
        return None

    def shrink(self, case):
        for q in coll.shrink(coll.normalise(case["sc"])):
            yield dict(sc=q)


def gen_late_bound(rng):
    """switch_ whose held input is a structural (non-peered) bundle {a, b} fed by two scripted scalars; every key change creates a
    new branch whose bundle input binds its fields one after another - in a cycle later than the producers' ticks, the fields
    carrying different last-modified-times"""
    import ho
    end = rng.choice((12, 18, 26))
    kw = ho.gen_ts_writer(rng, 1, end, values=[1, 2, 1, 2, 1], dense=rng.random() < 0.3)
    aw = ho.gen_ts_writer(rng, 2, end, dense=rng.random() < 0.3)
    bw = ho.gen_ts_writer(rng, 3, end, dense=rng.random() < 0.3)
    return dict(late=1, sc=dict(window=(0, end), writers=[kw, aw, bw], stmts=["switch 10 key=1 cases=1:BProbe1,2:BProbe2 ba=2 bb=3", "cons 11 10"]))


def check_late_bound(sc, events):
    """every reading a branch takes of its structural bundle input: fields hold the producers' current values and validity; at
    every node modified <=> last-modified-time == now; the bundle is modified exactly when a field is and its last-modified-time
    is the latest of its valid fields' (never older than a child's); the branch is evaluated at every tick of a field and at
    every activation, and at no other time"""
    import ho
    stats = dict(probe_readings=0, consumer_readings=0, probe_quiet_cycle_readings=1, probe_late_bound_activations=0, probe_fields_with_different_stamps_at_binding=0)
    w = {x["id"]: x for x in sc["writers"]}
    if not all(i in w for i in (1, 2, 3)):
        return None, stats
    keys = dict(ho.ts_history(w[1]))
    ha, hb = dict(ho.ts_history(w[2])), dict(ho.ts_history(w[3]))
    bp = {}
    for e in events:
        if e["k"] == "BP":
            bp[e["t"]] = e
    cur_key = None
    va = vb = None
    la = lb = None
    active = False
    for t in range(sc["window"][1]):
        if t in ha:
            va, la = ha[t], t
        if t in hb:
            vb, lb = hb[t], t
        act = t in keys and keys[t] != cur_key
        if act:
            cur_key = keys[t]
            active = True
            stats["probe_late_bound_activations"] += 1
            if la is not None and lb is not None and la != lb:
                stats["probe_fields_with_different_stamps_at_binding"] += 1
        e = bp.get(t)
        must = active and (act or t in ha or t in hb)
        if e is None:
            if must and (va is not None or vb is not None or act):
                return ("consumer_not_evaluated", "t=%d the branch below the structural bundle was not evaluated although %s" % (t, "it was activated" if act else "a field ticked")), stats
            continue
        if not must:
            return ("evaluated_without_cause", "t=%d the branch was evaluated although no field ticked and no key change happened" % t), stats
        stats["probe_readings"] += 1
        stats["consumer_readings"] += 1
        if e["k"] is not None and cur_key is not None and e.get("k") != "BP":
            pass
        i = e["i"]
        ch = i.get("ch", {})
        for name, val, last in (("a", va, la), ("b", vb, lb)):
            c = ch.get(name, {})
            if c.get("v") != (1 if val is not None else 0):
                return ("valid_history", "t=%d field %s reads valid=%s, its producer %s" % (t, name, c.get("v"), "has ticked" if val is not None else "has never ticked")), stats
            if val is not None and c.get("val") != val:
                return ("value_vs_producer", "t=%d field %s reads %s, its producer holds %s" % (t, name, c.get("val"), val)), stats
            if val is not None and bool(c.get("m")) != (c.get("lmt") == t):
                return ("modified_vs_lmt", "t=%d field %s reads modified=%s with last_modified_time %s" % (t, name, c.get("m"), c.get("lmt"))), stats
            if val is not None and last == t and not c.get("m"):
                return ("modified_history", "t=%d field %s does not read modified in the cycle in which its producer ticked" % (t, name)), stats
            if val is not None and not act and last != t and c.get("m"):
                return ("modified_history", "t=%d field %s reads modified although its producer did not tick (no activation in this cycle)" % (t, name)), stats
        kids = [ch[n] for n in ("a", "b") if ch.get(n, {}).get("v")]
        if kids:
            if bool(i["m"]) != any(k["m"] for k in kids):
                return ("parent_child_modified", "t=%d the bundle reads modified=%d, its fields read %s (a fixed-shape parent is modified exactly when a child is)" % (t, i["m"], [k["m"] for k in kids])), stats
            if i["lmt"] != max(k["lmt"] for k in kids):
                return ("parent_child_lmt", "t=%d the bundle's last_modified_time is %s, its fields' are %s" % (t, i["lmt"], [k["lmt"] for k in kids])), stats
            if bool(i["m"]) != (i["lmt"] == t):
                return ("modified_vs_lmt", "t=%d the bundle reads modified=%d with last_modified_time %s" % (t, i["m"], i["lmt"])), stats
    return None, stats


class C04(CollProperty):
    id = "C04"
    composite_inv = True          # explicit invalidation also of bundles, lists, sets and dictionaries (flags only: C05 does not define their contents afterwards)
    quick_runs = 1500
    quick_budget_s = 150
    thorough_budget_s = 900
    rule = ("1-3 scripted writers per run over 22 time-series shapes (TS<Int>, TS<Str>, SIGNAL, TSS, TSD, TSL, TSB, TSW and the nestings TSD<TSB>, TSD<TSD>, "
            "TSD<TSS>, TSL<TSS>, TSD<Str,TSL>, TSD<TSW>, TSD<TSB{TS,TSS}>, TSL<TSB>, TSB{TS,TSS}, TSB{TS,TSL}, TSB{TS,TSB}, TSB{TS,TSW}) - an erased writer applying seeded canonical deltas through apply_delta and typed writers using "
            "the authoring API's own mutators (incl. dictionary entries written through their child outputs); per cycle: one write, several writes, child-only writes, no write, invalidation, key removal - each "
            "observed by 2-4 consumers: active consumers at different ranks and an always-awake probe whose input is passive + Unchecked and which "
            "wakes itself every cycle, so flags are also read in the cycles where nothing happened. Oracle (write-history model): modified <=> the "
            "producer wrote in this cycle; last_modified_time = latest write; valid from the first write until an invalidation; every consumer's "
            "value/modified/valid/lmt equal the producer's in every cycle; modified <=> lmt == now at every node of the tree; a parent is modified "
            "whenever a child is and a fixed-shape parent only then; outside its cycle delta_value()/added/removed/modified read nothing. non-trivial = "
            ">= 5 probe readings incl. a quiet cycle; distinct = distinct (shapes, scripts)"
            " Round 3: 10% of the runs are a late-bound family: switch_ branches whose held input is a structural (non-peered) bundle of two scripted scalars, bound field by field at every key change; per reading: field value/validity equal the producer s, modified <=> lmt == now at every node, the bundle modified exactly when a field is and its lmt the latest of its fields.")
    assumptions = ["'the producer wrote' is taken from the producer's own output view right after its mutators ran, cross-checked against the container model for effective writes"]

    def gen(self, seed):
        rng = random.Random(seed)
        if random.Random(seed ^ 0x1A7E).random() < 0.1:
            return gen_late_bound(rng)
        return dict(sc=self.build(rng))

    def run_late(self, case, fresh):
        import ho
        sc = ho.normalise(case["sc"])
        text = ho.emit(sc)
        res = runner.run_fresh(text, san=self.san) if fresh else runner.run(text, san=self.san)
        pre = self.precheck(text, res)
        if pre:
            return pre
        v, stats = check_late_bound(sc, res.events)
        stats["cycles"] = sum(1 for e in res.events if e["k"] == "cyc" and e.get("g") == 0)
        stats["simulated_time_us"] = sc["window"][1]
        return Outcome(violation=dict(clause=v[0], detail=v[1]) if v else None, stats=stats, digest=res.digest, nontrivial=stats["probe_readings"] >= 3,
                       sample=dict(scenario=text, log_head=res.raw[:1200]), shape=runner.h64(text))

    def shrink(self, case):
        if case.get("late"):
            import copy
            import ho
            sc = ho.normalise(case["sc"])
            for i, w in enumerate(sc["writers"]):
                for off in sorted(w["script"]):
                    if len(w["script"]) > 1:
                        q = copy.deepcopy(sc)
                        del q["writers"][i]["script"][off]
                        yield dict(late=1, sc=q)
            return
        for q in coll.shrink(coll.normalise(case["sc"])):
            yield dict(sc=q)

    def run(self, case, fresh=False):
        if case.get("late"):
            return self.run_late(case, fresh)
        sc = coll.normalise(case["sc"])
        text, res = self.execute(sc, fresh)
        pre = self.precheck(text, res)
        if pre:
            return pre
        log = oc.parse_run(res.events, 0)
        v, stats = oc.check_flags(sc, log)
        stats["cycles"] = len(log["cycles"])
        stats["simulated_time_us"] = sc["window"][1]
        viol = dict(clause=v[0], detail=v[1]) if v else (dict(clause="known_class:F16", detail="producer and consumer disagree on modified / last_modified_time at an explicit invalidation", known=F16) if stats.get("known_F16") else None)
        return Outcome(violation=viol, stats=stats, digest=res.digest,
                       nontrivial=stats["probe_readings"] >= 5 and stats["probe_quiet_cycle_readings"] > 0,
                       sample=dict(scenario=text, log_head=res.raw[:1200]), shape=runner.h64(text))


PROPERTY = C04()
