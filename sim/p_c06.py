"""C06 - behaviour depends on the dataflow, not on wiring order or node sharing."""
import copy
import random

import dataflow
import gen_dataflow
import oracle_dataflow as od
import runner
from framework import Outcome


def class_keys(prog):
    """congruence classes of the value-producing statements under (definition, resolved template parameters, input
    classes incl. the passive mark, scalars); returns (expected node count, number of shared statements)"""
    nodes = prog["nodes"]
    binds = {h: p.lstrip("~") for h, p in prog.get("binds", [])}
    by_name = {n["name"]: n for n in nodes}
    key_of = {}
    runtime_nodes = set()
    unique = 0
    statements = 0

    def arg_key(a):
        pas = a.startswith("~")
        a = a.lstrip("~")
        n = by_name[a]
        if n["kind"] == "delayed":
            return (arg_key(("~" if pas else "") + binds[a]))
        return (key_of[a], pas)

    def add(name, key, count=True):
        key_of[name] = key
        if count:
            runtime_nodes.add(key)

    def walk(n):
        nonlocal unique, statements
        k = n["kind"]
        nm = n["name"]
        if k == "delayed":
            return
        if k == "ctxscope":
            key_of[nm] = arg_key(n["args"][0])[0]       # a wiring-time scope, not a node
            return
        if k == "feedback":
            unique += 1
            add(nm, ("fb", nm), count=False)   # add_unique_node: identity is the allocation site
            unique += 1                         # its sink, added at bind (sinks never merge)
            return
        statements += 1
        args = tuple(arg_key(a) for a in n.get("args", []))
        if k == "inline" and n["g"] == "SgDeep":
            # inline SgDeep = one compute node + one nested_<SgTimer> node
            a = dict(name=nm + ".a", kind="c1", args=n["args"], valid="V", op=0, id=n["id"] * 10 + 1)
            by_name[a["name"]] = a
            walk(a)
            add(nm, ("nested", "SgTimer", (arg_key(a["name"]),), n.get("p"), n.get("q"), n["id"] * 10 + 2))
            return
        if k in ("inline",):
            for e in dataflow.expand_subgraph(n):
                if e["kind"] == "_bind":
                    continue
                by_name[e["name"]] = e
                if e["kind"] == "alias":
                    key_of[e["name"]] = arg_key(e["args"][0])[0]
                else:
                    walk(e)
            return
        if k in ("nested", "nested2", "nested3"):
            add(nm, (k, n["g"], args, n.get("p"), n.get("q"), n["id"]))
            return
        if k == "ite":
            tb = ("tobool", args[0], n["id"])
            runtime_nodes.add(tb)
            add(nm, ("ite", (tb, False), args[1], args[2]))
            return
        if k == "const":
            add(nm, ("const", n["value"], n.get("delay")))
            return
        if k == "conv" and n.get("ty") == "F":
            # the Float resolution is followed by a Float -> Int helper node
            inner = ("conv", None, args, n.get("id"), "F")
            runtime_nodes.add(inner)
            add(nm, ("f2i", inner))
            return
        valid = None
        if k in ("c1", "c2", "c3"):
            valid = (n.get("valid", "VVV") + "VVV")[:len(args)]
        add(nm, (k, valid, args, n.get("id"), n.get("op"), n.get("count"), n.get("period"), n.get("all"), n.get("ty")))

    for n in nodes:
        walk(n)
    n_sinks = len(prog.get("sinks", []))
    return len(runtime_nodes) + unique + n_sinks, statements


def duplicate_some(prog, rng):
    """wire the same definition with the same inputs and equal scalars again (and near-duplicates that differ in one thing)"""
    nodes = prog["nodes"]
    dup_of = {}
    out = []
    k = 0
    for n in nodes:
        out.append(n)
        if n["kind"] in ("feedback", "delayed", "ctxscope"):
            continue
        r = rng.random()
        if r < 0.30:
            d = copy.deepcopy(n)
            d["name"] = n["name"] + "x%d" % k
            k += 1
            if rng.random() < 0.35:
                # near-duplicate: differs in exactly one scalar / input / template parameter / passive mark
                kind = rng.choice(("id", "op", "valid", "arg", "passive"))
                if d["kind"] == "conv" and rng.random() < 0.7:
                    kind = "ty"          # the same definition, inputs and scalars: only the resolved output type differs
                    d["ty"] = "F" if d.get("ty") == "I" else "I"
                if kind == "id":
                    d["id"] = n.get("id", 0) + 7000
                    if d["kind"] in ("source",):
                        prog["scripts"][d["id"]] = dict(prog["scripts"].get(n["id"], {}))
                    if d["kind"] in ("timer0", "timer1"):
                        prog["tscripts"][d["id"]] = copy.deepcopy(prog["tscripts"].get(n["id"], {}))
                    if d["kind"] in ("inline", "nested", "nested2", "nested3"):
                        if (n["id"] * 10 + 1) in prog["scripts"]:
                            prog["scripts"][d["id"] * 10 + 1] = dict(prog["scripts"][n["id"] * 10 + 1])
                        if (n["id"] * 10 + 1) in prog["tscripts"]:
                            prog["tscripts"][d["id"] * 10 + 1] = copy.deepcopy(prog["tscripts"][n["id"] * 10 + 1])
                elif kind == "op" and "op" in d:
                    d["op"] = (d["op"] + 1) % 3
                elif kind == "valid" and d.get("valid"):
                    v = list(d["valid"])
                    j = rng.randrange(len(v))
                    v[j] = "U" if v[j] == "V" else "V"
                    d["valid"] = "".join(v)
                elif kind == "passive" and d["kind"] in ("c2", "c3"):
                    j = rng.randrange(len(d["args"]))
                    a = d["args"][j]
                    d["args"][j] = a[1:] if a.startswith("~") else "~" + a
                    if all(a.startswith("~") for a in d["args"]):
                        d["args"][j] = d["args"][j][1:]
            out.append(d)
            dup_of[d["name"]] = n["name"]
    prog["nodes"] = out
    # readers of a duplicated port read either copy; sinks on both
    rid = 900
    for d, o in dup_of.items():
        prog["sinks"].append(dict(kind="rec", id=rid, port=d))
        rid += 1
    for n in prog["nodes"]:
        # references observe node identity (same-reference de-duplication is documented): the two targets of one
        # if_then_else are never drawn from a pair of congruent duplicates
        if n["name"] in dup_of or n["kind"] == "ite":
            continue
        n["args"] = [(("~" if a.startswith("~") else "") + rng.choice([d for d, o in dup_of.items() if o == a.lstrip("~")] + [a.lstrip("~")] * 2)) if any(o == a.lstrip("~") for o in dup_of.values()) and by_index(prog, a.lstrip("~"), n, dup_of) else a for a in n.get("args", [])]
    # duplicated sinks (same id, same port): never merged
    for s in list(prog["sinks"]):
        if rng.random() < 0.15:
            prog["sinks"].append(dict(s))
    return prog


def by_index(prog, a, n, dup_of):
    """a duplicate may only be read by statements that come after it"""
    names = [x["name"] for x in prog["nodes"]]
    ni = names.index(n["name"])
    return all(names.index(d) < ni for d, o in dup_of.items() if o == a)


class C06:
    id = "C06"
    level = "exploration"
    quick_runs = 700
    quick_budget_s = 150
    thorough_budget_s = 900
    san = False
    K = 4
    rule = ("a seeded dataflow program is (i) wired in K=4 random admissible permutations of its statements and (ii) seeded with duplicated "
            "sub-expressions - the same definition with the same inputs and equal scalars wired again (stateless, stateful, sources, scheduler-scripted, "
            "nested_<G> calls, inline sub-graphs whose inner nodes intern individually) - and near-duplicates that differ in exactly one scalar, one "
            "input, one template parameter (Valid/Unchecked), one resolved output type of a generic definition (Conv -> TS<Int> / TS<Float>) or one passive mark, plus duplicated sinks. Oracle: every admissible order builds; all permutations give identical "
            "recorder streams and identical node counts; streams equal the reference interpreter run on the un-shared program; the compiled node "
            "count equals the number of congruence classes of value-producing statements + feedback endpoints + sink statements (computed by the "
            "driver), so equal statements share and near-duplicates and sinks never merge. non-trivial = at least one statement pair was shared and "
            "one near-duplicate kept apart; distinct = distinct (shape, permutation set)")
    assumptions = ["the expected node count uses the driver's knowledge of how many runtime nodes each vocabulary statement produces (if_then_else = helper + operator node; feedback = source + sink)"]

    def gen(self, seed):
        rng = random.Random(seed)
        prog = gen_dataflow.gen_program(rng.getrandbits(48), size=rng.randint(2, 16), allow=dict(how=("inline", "nested"), nested_over_ref=False, ctx=True))
        # depth >= 2 nesting only where recorders are Valid (F1 is invisible to them)
        for s in prog["sinks"]:
            s["kind"] = "rec"
        prog = duplicate_some(prog, rng)
        prog = gen_dataflow.add_delayed(prog, rng, rng.choice((0, 0, 1)))
        orders = []
        for _ in range(self.K):
            try:
                orders.append(gen_dataflow.random_order(prog, rng))
            except ValueError:
                pass
        return dict(prog=prog, orders=orders)

    def run(self, case, fresh=False):
        prog = dataflow.normalise(case["prog"])
        n_stmts = len(dataflow.statements(prog))
        orders = [o for o in case.get("orders", []) if len(o) == n_stmts] or [None]
        results = []
        text0 = None
        for o in orders:
            text = dataflow.emit(prog, order=o)
            text0 = text0 or text
            res = runner.run_fresh(text, san=self.san) if fresh else runner.run(text, san=self.san)
            if not res.ok:
                return Outcome(harness_error="harness status=%s signal=%s timeout=%s tail=%s" % (res.status, res.signal, res.timeout, res.raw[-300:]), sample=text)
            for e in res.events:
                if e["k"] == "wire_error":
                    # every generated program is well formed (acyclic up to feedback, well typed, ports wired before use): a
                    # refusal to build it is the engine's, e.g. two resolutions of one definition mistaken for one another
                    return Outcome(violation=dict(clause="admissible_wiring_rejected", detail="statement order %s: %s" % (o, str(e.get("what"))[:300])),
                                   digest=res.digest, sample=dict(scenario=text))
                if e["k"] == "harness_error":
                    return Outcome(harness_error="%s: %s" % (e["k"], e.get("what")), sample=text)
            results.append((o, text, res))
        sample = dict(scenario=text0, orders=orders[:4])
        v = None
        ref = None
        rank_orders = set()
        for (o, text, res) in results:
            ran = [e for e in res.events if e["k"] == "ran"]
            if not ran or ran[0]["run"] != "ok":
                v = ("run_threw", ran[0].get("what") if ran else "no ran event")
                break
            recs = sorted((e["id"], e["t"], e.get("v")) for e in res.events if e["k"] == "rec")
            wire = [e for e in res.events if e["k"] == "wire"][0]
            rank_orders.add(tuple(n["scalars"] + n["label"] for n in wire["graph"]["nodes"]))
            cur = (recs, wire["nodes"])
            if ref is None:
                ref = cur
                expected, n_statements = class_keys(prog)
                if wire["nodes"] < expected:
                    # the statement allows sharing ("may share") but never merging of nodes that differ: fewer runtime nodes
                    # than congruence classes means two different statements (or two sinks) were merged
                    v = ("distinct_nodes_merged", "compiled graph has %d nodes but its statements fall into %d classes that must stay distinct (near-duplicates and sinks never merge)" % (wire["nodes"], expected))
                    break
            elif cur != ref:
                if cur[1] != ref[1]:
                    v = ("order_changes_node_count", "statement order %s compiles %d nodes, the first order %d" % (o, cur[1], ref[1]))
                else:
                    d = [x for x in cur[0] if x not in ref[0]][:5] + [x for x in ref[0] if x not in cur[0]][:5]
                    v = ("order_changes_streams", "statement order %s changes recorder streams, e.g. %s" % (o, d))
                break
        res0 = results[0][2]
        if not v:
            # streams vs the reference interpreter on the un-shared program (only recorder events: shared nodes run once)
            m, mcycles, mevents = od.predicted(prog)
            pred = sorted((e["id"], e["t"], e.get("v")) for e in mevents if e["k"] == "rec")
            if pred != ref[0]:
                d = [x for x in ref[0] if x not in pred][:5], [x for x in pred if x not in ref[0]][:5]
                v = ("sharing_changes_streams", "recorder streams differ from the un-shared reference: engine-only %s, model-only %s" % d)
        expected, n_statements = class_keys(prog)
        n_nodes = ref[1] if ref else 0
        stats = dict(statements_shared=max(0, n_statements + len(prog["sinks"]) - n_nodes), classes=expected, permutations_run=len(results), distinct_rank_orders=len(rank_orders), statements=n_statements, compiled_nodes=n_nodes,
                     simulated_time_us=prog["window"][1] - prog["window"][0],
                     cycles=sum(1 for e in res0.events if e["k"] == "cyc" and e["g"] == 0))
        return Outcome(violation=dict(clause=v[0], detail=v[1]) if v else None, stats=stats, digest=res0.digest,
                       nontrivial=len(results) >= 2, sample=sample, shape=runner.h64(dataflow.shape_key(prog), orders))

    def shrink(self, case):
        for q in dataflow.shrink_program(dataflow.normalise(case["prog"])):
            orders = []
            for k in range(self.K + 2):
                try:
                    orders.append(gen_dataflow.random_order(q, random.Random(k)))
                except (ValueError, KeyError):
                    pass
            yield dict(prog=q, orders=orders)
        if len(case.get("orders", [])) > 2:
            for i in range(1, len(case["orders"])):
                yield dict(prog=case["prog"], orders=[case["orders"][0], case["orders"][i]])


PROPERTY = C06()
