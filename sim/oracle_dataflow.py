"""Oracles over dataflow-mode logs."""
import json

from dataflow import Model, expand, predicted


def key(e):
    k = e["k"]
    if k == "ev":
        return ("ev", e["id"], e["t"], json.dumps(e.get("in")))
    if k == "out":
        return ("out", e["id"], e["t"], e["v"])
    if k == "rec":
        return ("rec", e["id"], e["t"], e.get("v"))
    if k == "errtick":
        return ("errtick", e["id"], e["t"])
    return None


def observed(events, run_index=None):
    """user-level events of the harness log, and the root cycle times"""
    obs = []
    cycles = []
    for e in events:
        k = e["k"]
        if k in ("ev", "out", "rec", "errtick"):
            if e.get("id", 0):
                obs.append(e)
        elif k == "cyc" and e["g"] == 0:
            cycles.append(e["t"])
    return cycles, obs


def diff_events(pred, obs, limit=6):
    """multiset comparison per engine time; returns list of human-readable differences"""
    from collections import Counter
    cp = Counter(key(e) for e in pred if e.get("id", 0))
    co = Counter(key(e) for e in obs)
    out = []
    for k in sorted(set(cp) | set(co), key=lambda x: (x[2], str(x))):
        if cp[k] != co[k]:
            out.append("t=%s %s: model x%d, engine x%d" % (k[2], k, cp[k], co[k]))
            if len(out) >= limit:
                break
    return out


def check_against_model(prog, res, quirks=True, model_out=None):
    """C03 (and the value half of C01/C02): same evaluations on the same values, same writes, same recorder streams,
    same cycle times. Returns (clause, detail) or None."""
    m, mcycles, mevents = predicted(prog, quirks=quirks)
    if model_out is not None:
        model_out.append(m)
    cycles, obs = observed(res.events)
    d = diff_events(mevents, obs)
    if d:
        return ("user_code_or_value", "; ".join(d))
    if mcycles != cycles:
        return ("cycle_times", "model %s engine %s" % (mcycles[:40], cycles[:40]))
    return None


def probes(prog, res):
    """rare-condition probes, computed from the scenario and the log"""
    p = {}
    evs = [e for e in res.events if e["k"] == "ev"]
    p["probe_eval_with_invalid_unchecked_input"] = sum(1 for e in evs if any(i[0] == 0 for i in e.get("in", [])))
    p["probe_eval_with_unmodified_input"] = sum(1 for e in evs if any(i[1] == 0 and i[0] == 1 for i in e.get("in", [])))
    p["probe_several_inputs_modified"] = sum(1 for e in evs if sum(1 for i in e.get("in", []) if i[1]) >= 2)
    p["probe_nested_graph_cycles"] = sum(1 for e in res.events if e["k"] == "cyc" and e["g"] > 0)
    p["probe_passive_marked_inputs"] = sum(1 for n in prog["nodes"] for a in n.get("args", []) if a.startswith("~"))
    return p


# ---------------------------------------------------------------------------------------------- C01: order / once
def wire_graphs(events):
    """yield (path, graph dict) for the compiled root graph and every child graph template"""
    for e in events:
        if e["k"] == "wire":
            stack = [("root", e["graph"])]
            while stack:
                path, g = stack.pop()
                yield path, g
                for i, n in enumerate(g["nodes"]):
                    for j, c in enumerate(n.get("children", [])):
                        stack.append(("%s/%d.%d" % (path, i, j), c))


def check_edges(events):
    n_edges = 0
    for path, g in wire_graphs(events):
        for (s, t, kind) in g["edges"]:
            n_edges += 1
            if not s < t:
                return ("edge_order", "compiled edge %d -> %d in graph %s does not satisfy source < target" % (s, t, path)), n_edges
    return None, n_edges


def check_eval_order(events):
    """engine-level: per graph instance and cycle, node indices strictly increase (hence at most once); a nested graph is
    evaluated inside its parent node's evaluation bracket, at the parent's time."""
    parent = {}      # g -> (pg, pi)
    open_cyc = {}    # g -> [t, last index]
    node_stack = []  # (g, i)
    n_checked = 0
    for e in events:
        k = e["k"]
        if k == "gstart":
            parent[e["g"]] = (e["pg"], e["pi"])
        elif k == "cyc":
            g = e["g"]
            if g in open_cyc:
                return ("cycle_nesting", "graph %d evaluation began twice" % g), n_checked
            open_cyc[g] = [e["t"], -1]
            pg, pi = parent.get(g, (-1, -1))
            if pg >= 0:
                if not node_stack or node_stack[-1] != (pg, pi):
                    return ("child_outside_parent_bracket", "child graph %d evaluated outside the evaluation of its parent node (%d,%d)" % (g, pg, pi)), n_checked
                if pg in open_cyc and open_cyc[pg][0] != e["t"]:
                    return ("child_time", "child graph %d evaluated at %d while its parent graph is at %d" % (g, e["t"], open_cyc[pg][0])), n_checked
        elif k == "cycend":
            open_cyc.pop(e["g"], None)
        elif k == "ne":
            g, i = e["g"], e["i"]
            if g not in open_cyc:
                return ("eval_outside_cycle", "node (%d,%d) evaluated outside a graph evaluation" % (g, i)), n_checked
            n_checked += 1
            if i <= open_cyc[g][1]:
                return ("eval_order", "graph %d t=%d: node %d evaluated after node %d (index order / at most once)" % (g, open_cyc[g][0], i, open_cyc[g][1])), n_checked
            open_cyc[g][1] = i
            node_stack.append((g, i))
        elif k == "nx":
            if node_stack and node_stack[-1] == (e["g"], e["i"]):
                node_stack.pop()
    return None, n_checked


def program_dependencies(prog):
    """id -> set of ids of the user-code nodes it reads in the same cycle, through aliases, references, structural
    collections and nested boundaries (the program's own relation; feedback readers do not depend on their producer)."""
    nodes, binds = expand(prog)
    by_name = {n["name"]: n for n in nodes}
    alias = {}
    for h, p in binds:
        if by_name[h]["kind"] == "delayed":
            alias[h] = p.lstrip("~")

    def producers(name, seen=()):
        name = name.lstrip("~")
        if name in seen:
            return set()
        seen = seen + (name,)
        if name in alias:
            return producers(alias[name], seen)
        n = by_name[name]
        k = n["kind"]
        if k == "alias":
            return producers(n["args"][0], seen)
        if k == "feedback":
            return set()
        if k == "ite":
            out = {n["id"]} if n.get("id") else set()
            for a in n["args"]:
                out |= producers(a, seen)
            return out
        if n.get("id"):
            return {n["id"]}
        return set()

    deps = {}
    for n in nodes:
        if n.get("id") and n["kind"] not in ("feedback", "delayed", "alias"):
            d = set()
            # the id of an ite statement names its condition helper (ToBool), which reads the condition only; readers of
            # the ite port depend on that helper *and* on both targets (see producers())
            for a in (n.get("args", [])[:1] if n["kind"] == "ite" else n.get("args", [])):
                d |= producers(a)
            d.discard(n["id"])
            deps.setdefault(n["id"], set()).update(d)
    for s in prog.get("sinks", []):
        if s["kind"] in ("rec", "recu"):
            deps.setdefault(s["id"], set()).update(producers(s["port"]))
    return deps


def check_user_order(prog, events):
    """user-level: when N's code runs at t, every producer P it reads whose code also runs at t has already run; and no
    user code runs twice in one cycle"""
    deps = program_dependencies(prog)
    seen_at = {}
    n_pairs = 0
    order = 0
    pending = []
    for e in events:
        if e["k"] in ("ev", "rec"):
            i, t = e["id"], e["t"]
            if not i:
                continue
            order += 1
            if (i, t) in seen_at:
                return ("user_code_twice", "user code of id %d ran twice at t=%d" % (i, t)), n_pairs
            seen_at[(i, t)] = order
            pending.append((i, t, order))
    for (i, t, o) in pending:
        for p in deps.get(i, ()):
            if (p, t) in seen_at:
                n_pairs += 1
                if seen_at[(p, t)] > o:
                    return ("producer_after_consumer", "t=%d: id %d ran before its producer id %d" % (t, i, p)), n_pairs
    return None, n_pairs


# ---------------------------------------------------------------------------------------------- C02: wake-ups
def requests_from_log(events):
    """accepted wake-up requests as logged by the requesting nodes: (id, made_at, when)"""
    out = []
    rejected = 0
    for e in events:
        if e["k"] == "req":
            ok = e["when"] >= e["t"] if e["in_start"] else e["when"] > e["t"]
            if ok:
                out.append((e["id"], e["t"], e["when"]))
            else:
                rejected += 1
        elif e["k"] == "sop" and e["op"] in ("+", "@"):
            when = e["t"] + e["arg"] if e["op"] == "+" else e["arg"]
            ok = when >= e["t"] if e["in_start"] else when > e["t"]
            if ok:
                out.append((e["id"], e["t"], when))
            else:
                rejected += 1
    return out, rejected


def check_wakeups(prog, events):
    start, end = prog["window"]
    cycles = [e["t"] for e in events if e["k"] == "cyc" and e["g"] == 0]
    for a, b in zip(cycles, cycles[1:]):
        if not a < b:
            return ("time_not_increasing", "cycle %d followed by %d" % (a, b)), {}
    for t in cycles:
        if t < start or t >= end:
            return ("outside_window", "cycle at %d outside [%d,%d)" % (t, start, end)), {}
    stopped = [e["t"] for e in events if e["k"] == "stopreq"]
    horizon = stopped[0] if stopped else None
    reqs, rejected = requests_from_log(events)
    cyc = set(cycles)
    evs = {(e["id"], e["t"]) for e in events if e["k"] == "ev"}
    honoured = 0
    # a requester whose inputs are required valid legitimately skips its user code while they are not (C03's rule):
    # for those the cycle itself is what is asserted here, the evaluation is left to the model comparison
    gated = {n["id"] for n in expand(prog)[0] if n["kind"] == "timer1v"}
    for (i, made, when) in reqs:
        if when < start or when >= end:
            continue
        if horizon is not None and when > horizon:
            continue
        if when not in cyc:
            return ("wakeup_dropped", "id %d asked at %d for %d: no cycle at that time (cycles %s)" % (i, made, when, cycles[:30])), {}
        if (i, when) not in evs and i not in gated:
            return ("wakeup_not_delivered", "id %d asked at %d for %d: cycle exists but the node was not evaluated" % (i, made, when)), {}
        honoured += 1
    return None, dict(requests=len(reqs), requests_honoured_in_window=honoured, requests_rejected_by_rule=rejected,
                      probe_equal_time_requests=len(reqs) - len({w for (_, _, w) in reqs}),
                      probe_consecutive_step_cycles=sum(1 for a, b in zip(cycles, cycles[1:]) if b == a + 1))
