"""Oracles over dataflow-mode logs."""
import json

from dataflow import Model, expand, predicted


def key(e):
    k = e["k"]
    if k == "ev":
        return ("ev", e["id"], e["t"], json.dumps(e.get("in")))
    if k == "out":
        return ("out", e["id"], e["t"], e["v"])
    if k == "rec":
        return ("rec", e["id"], e["t"], e.get("v"))
    if k == "errtick":
        return ("errtick", e["id"], e["t"])
    return None


def observed(events, run_index=None):
    """user-level events of the harness log, and the root cycle times"""
    obs = []
    cycles = []
    for e in events:
        k = e["k"]
        if k in ("ev", "out", "rec", "errtick"):
            if e.get("id", 0):
                obs.append(e)
        elif k == "cyc" and e["g"] == 0:
            cycles.append(e["t"])
    return cycles, obs


def diff_events(pred, obs, limit=6):
    """multiset comparison per engine time; returns list of human-readable differences"""
    from collections import Counter
    cp = Counter(key(e) for e in pred if e.get("id", 0))
    co = Counter(key(e) for e in obs)
    out = []
    for k in sorted(set(cp) | set(co), key=lambda x: (x[2], str(x))):
        if cp[k] != co[k]:
            out.append("t=%s %s: model x%d, engine x%d" % (k[2], k, cp[k], co[k]))
            if len(out) >= limit:
                break
    return out


def check_against_model(prog, res):
    """C03 (and the value half of C01/C02): same evaluations on the same values, same writes, same recorder streams,
    same cycle times. Returns (clause, detail) or None."""
    m, mcycles, mevents = predicted(prog)
    cycles, obs = observed(res.events)
    d = diff_events(mevents, obs)
    if d:
        return ("user_code_or_value", "; ".join(d))
    if mcycles != cycles:
        return ("cycle_times", "model %s engine %s" % (mcycles[:40], cycles[:40]))
    return None


def probes(prog, res):
    """rare-condition probes, computed from the scenario and the log"""
    p = {}
    evs = [e for e in res.events if e["k"] == "ev"]
    p["probe_eval_with_invalid_unchecked_input"] = sum(1 for e in evs if any(i[0] == 0 for i in e.get("in", [])))
    p["probe_eval_with_unmodified_input"] = sum(1 for e in evs if any(i[1] == 0 and i[0] == 1 for i in e.get("in", [])))
    p["probe_several_inputs_modified"] = sum(1 for e in evs if sum(1 for i in e.get("in", []) if i[1]) >= 2)
    p["probe_nested_graph_cycles"] = sum(1 for e in res.events if e["k"] == "cyc" and e["g"] > 0)
    p["probe_passive_marked_inputs"] = sum(1 for n in prog["nodes"] for a in n.get("args", []) if a.startswith("~"))
    return p
