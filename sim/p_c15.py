"""C15 - captured errors tick once, where they happen, and do not disturb the rest (fault enumeration over cycle subsets)."""
import copy
import itertools
import random

import dataflow
import gen_dataflow
import p_c10
import oracle_dataflow as od
import runner
from framework import Outcome

CAPTURABLE = ("c1", "c2", "c3", "accum", "sample", "samplemid", "timer0", "timer1", "suml", "sumb", "lift2")


def descendants(prog, roots):
    """names of nodes (expanded) that depend, directly or not, on the given node names (feedback edges included)"""
    nodes, binds = dataflow.expand(prog)
    fb = {}
    alias = {}
    by = {n["name"]: n for n in nodes}
    for h, p in binds:
        if by[h]["kind"] == "delayed":
            alias[h] = p.lstrip("~")
        else:
            fb.setdefault(p.lstrip("~"), []).append(h)
    dead = set(roots)
    changed = True
    while changed:
        changed = False
        for n in nodes:
            if n["name"] in dead:
                continue
            refs = [a.lstrip("~") for a in n.get("args", [])]
            refs = [alias.get(r, r) for r in refs]
            if any(r in dead for r in refs):
                dead.add(n["name"])
                changed = True
        for p, hs in fb.items():
            if p in dead:
                for h in hs:
                    if h not in dead:
                        dead.add(h)
                        changed = True
        for h, p in alias.items():
            if p in dead and h not in dead:
                dead.add(h)
                changed = True
    return dead, nodes


F20 = "F20-try-except-sibling-timer-dies-after-failure-cycle"


def f20_signature(p, res, fail_times):
    """Known finding F20, narrowly: everything outside the try_except child is identical to the ideal model; inside the child
    (and at the recorders of its outputs) the engine's evaluations are a subset of the model's, identical up to and
    including the first failure cycle, and something is indeed missing afterwards (lost timer-driven evaluations)."""
    from collections import Counter
    if not fail_times:
        return False
    nodes = dataflow.expand(p)[0]
    grp_names = {n["name"] for n in nodes if n.get("try_group")}
    grp = {n["id"] for n in nodes if n.get("try_group") and n.get("id")}
    tnames = {n["name"] for n in p["nodes"] if n["kind"] == "tryexcept"}
    grp |= {s["id"] for s in p["sinks"] if s["port"].lstrip("~") in tnames or s["port"].lstrip("~") in grp_names}
    grp |= {n.get("eid") for n in p["nodes"] if n["kind"] == "tryexcept"}
    m, mcycles, mevents = dataflow.predicted(p)
    cycles, obs = od.observed(res.events)
    cm = Counter(od.key(e) for e in mevents if e.get("id", 0) and e["id"] not in grp)
    co = Counter(od.key(e) for e in obs if e["id"] not in grp)
    if cm != co:
        return False
    first = min(fail_times)
    em = {(e["id"], e["t"]) for e in mevents if e["k"] == "ev" and e.get("id") in grp}
    eo = {(e["id"], e["t"]) for e in obs if e["k"] == "ev" and e["id"] in grp}
    missing = em - eo
    return bool(missing) and eo <= em and all(t > first for (_, t) in missing) and set(cycles) <= set(mcycles)


class C15:
    id = "C15"
    level = "fault_enumeration"
    quick_runs = 150
    quick_budget_s = 150
    thorough_budget_s = 900
    san = False
    rule = ("seeded programs in which one or two nodes have exception_time_series activated and/or a sub-graph is wrapped in try_except_<G>; a "
            "fault-free run counts the evaluations n of each capturing target; then EVERY subset of its evaluation cycles is made to throw when "
            "n <= 5 (2^n - 1 plans), seeded subsets beyond (first cycle, consecutive cycles, all cycles, together with the other failing node). "
            "Oracle per plan: run completes; exactly one error tick at each throwing cycle carrying the thrown message, none otherwise; every "
            "stream of a node that is not a dataflow descendant of a failing node is identical to the fault-free run; the whole run equals the "
            "reference interpreter with the same fault plan (later cycles evaluate normally; scheduler re-arm after a captured error). "
            "A quarter of the runs are keyed maps instead: exception_time_series over map_ whose child throws on a magic element, alone or "
            "below a self-scheduling node with a timer pending in the throwing cycle; oracle: error ticks under the failing key only, at the "
            "throwing cycle, with the message; every key's stream equals that key's solo reference (later cycles evaluate normally). "
            "evaluations = injected runs; non-trivial = a planned fault fired; distinct = distinct (program, plan)"
            " Round 3: functions lifted with lift<F>() are capture targets too.")
    exhaustive_note = "per capturing target with <= 5 evaluations the subset enumeration is complete; programs and larger subsets are sampled"
    assumptions = ["the failing node's own ordinary output in a throwing cycle is unspecified (documented): the vocabulary throws before writing"]

    def gen(self, seed):
        if random.Random(seed ^ 0x15C15).random() < 0.25:
            # keyed map: exception_time_series over map_ with a child that throws on a magic element (alone, or below a
            # self-scheduling node whose timer is pending in the throwing cycle); oracle: per-key solo reference
            return dict(kind="map", inner=p_c10.PROPERTY.gen(seed, funcs=p_c10.FAILING))
        rng = random.Random(seed)
        prog = gen_dataflow.gen_program(rng.getrandbits(48), size=rng.randint(3, 14), allow=dict(how=("inline", "nested"), ite=rng.random() < 0.4, lift=True))
        s, e = prog["window"]
        prog["window"] = (s, min(e, s + 16))
        cands = [n for n in prog["nodes"] if n["kind"] in CAPTURABLE and n.get("id")]
        targets = []
        rid = 800
        rng.shuffle(cands)
        for n in cands[:rng.choice((1, 1, 2))]:
            prog["sinks"].append(dict(kind="err", id=rid, port=n["name"], depth=rng.choice((1, 1, 2, 3)), values=rng.choice((0, 0, 1))))
            targets.append(dict(id=n["id"], errid=rid, name=n["name"], kind="err"))
            rid += 1
        if rng.random() < 0.5 or not targets:
            ports = [n["name"] for n in prog["nodes"] if n["kind"] not in ("feedback", "delayed")]
            nm = "te1"
            if rng.random() < 0.5:
                # the failing node comes first; an independent scheduler-scripted sibling (Timer1, tscript 40002) follows it
                prog["nodes"].append(dict(name=nm, kind="tryexcept", g="SgFailT", args=[rng.choice(ports)], p=1, q=1, id=4000, eid=rid))
                prog.setdefault("tscripts", {})[40002] = gen_dataflow.gen_tscript(rng, in_start=rng.random() < 0.5)
                targets.append(dict(id=40001, errid=rid, name=nm + ".a", kind="try"))
            else:
                prog["nodes"].append(dict(name=nm, kind="tryexcept", g="SgFail", args=[rng.choice(ports)], p=1, q=1, id=4000, eid=rid))
                targets.append(dict(id=40002, errid=rid, name=nm + ".b", kind="try"))
            prog["sinks"].append(dict(kind="rec", id=rid + 100, port=nm))
            rid += 1
        return dict(prog=prog, targets=targets, seed=seed)

    def run_one(self, prog, faults, fresh):
        p = copy.deepcopy(prog)
        p["faults"] = list(faults)
        text = dataflow.emit(p)
        res = runner.run_fresh(text, san=self.san) if fresh else runner.run(text, san=self.san)
        return p, text, res

    def run(self, case, fresh=False):
        if case.get("kind") == "map":
            p_c10.PROPERTY.san = self.san
            out = p_c10.PROPERTY.run(case["inner"], fresh)
            if out.violation:
                out.violation = dict(out.violation, clause="keyed_map:" + out.violation["clause"])
            if out.stats is not None:
                out.stats = dict(out.stats, keyed_map_runs=1)
            return out
        prog = dataflow.normalise(case["prog"])
        names = {n["name"] for n in prog["nodes"]}
        sink_ids = {s["id"] for s in prog["sinks"]}
        targets = [t for t in case["targets"] if (t["name"].split(".")[0] in names) and (t["kind"] == "try" or t["errid"] in sink_ids)]
        rng = random.Random(case.get("seed", 0) ^ 0xC15)
        p0, text0, base = self.run_one(prog, [], fresh)
        if not base.ok:
            return Outcome(harness_error="harness status=%s signal=%s timeout=%s tail=%s" % (base.status, base.signal, base.timeout, base.raw[-300:]), sample=text0)
        for e in base.events:
            if e["k"] in ("wire_error", "harness_error"):
                return Outcome(harness_error="%s: %s" % (e["k"], e.get("what")), sample=text0)
        v = od.check_against_model(p0, base)
        if v:
            return Outcome(violation=dict(clause="fault_free:" + v[0], detail=v[1]), digest=base.digest, sample=dict(scenario=text0))
        plans = case.get("plans")
        if plans is None:
            plans = []
            per_target = []
            for t in targets:
                n = sum(1 for e in base.events if e["k"] == "ev" and e["id"] == t["id"])
                subsets = []
                if n and n <= 5:
                    for r in range(1, n + 1):
                        for c in itertools.combinations(range(1, n + 1), r):
                            subsets.append(list(c))
                elif n:
                    subsets = [[1], [n], [1, 2], list(range(1, n + 1)), [k for k in range(1, n + 1) if k % 2]]
                    for _ in range(10):
                        subsets.append(sorted(rng.sample(range(1, n + 1), rng.randint(1, min(n, 6)))))
                per_target.append((t, subsets))
                for sub in subsets:
                    plans.append([(t["id"], "eval", k) for k in sub])
            if len(per_target) >= 2:
                for _ in range(12):
                    f = []
                    for t, subsets in per_target:
                        if subsets:
                            f += [(t["id"], "eval", k) for k in rng.choice(subsets)]
                    plans.append(f)
            if len(plans) > 90:
                plans = rng.sample(plans, 90)
        base_stream = {}
        for e in base.events:
            if e["k"] in ("ev", "out", "rec") and e.get("id"):
                base_stream.setdefault(e["id"], []).append((e["k"], e["t"], e.get("v"), str(e.get("in"))))
        stats = dict(injected_runs=0, plans=len(plans), faults_fired={"F1_eval_captured": 0}, error_ticks=0, probe_consecutive_cycles=0,
                     probe_two_failing_nodes_same_cycle=0, probe_try_except_abandoned_cycle=0, simulated_time_us=prog["window"][1] - prog["window"][0])
        viol = None
        vtext = None
        known = None
        digests = [base.digest]
        for faults in plans:
            p, text, res = self.run_one(prog, faults, fresh)
            if not res.ok:
                if res.timeout:
                    return Outcome(harness_error="timeout under fault plan %s" % faults, sample=text)
                viol = dict(clause="crash_under_fault", detail="harness exited status=%s signal=%s under plan %s" % (res.status, res.signal, faults))
                vtext = (faults, text)
                break
            stats["injected_runs"] += 1
            digests.append(res.digest)
            ran = [e for e in res.events if e["k"] == "ran"]
            fired = [e for e in res.events if e["k"] == "fault"]
            stats["faults_fired"]["F1_eval_captured"] += len(fired)
            errt = [e for e in res.events if e["k"] == "errtick"]
            stats["error_ticks"] += len(errt)
            v = None
            if not ran or ran[0]["run"] != "ok":
                v = ("run_did_not_continue", "captured error aborted the run: %s" % (ran[0].get("what", "")[:300] if ran else "no ran event"))
            if not v:
                # exactly one error tick per throwing cycle, with the thrown message, under the right recorder
                ftimes = {}
                last_ev = {}
                for e in res.events:
                    if e["k"] == "ev":
                        last_ev[e["id"]] = e["t"]
                    elif e["k"] == "fault":
                        tgt = [t for t in targets if t["id"] == e["id"]]
                        ftimes[(tgt[0]["errid"] if tgt else None, last_ev.get(e["id"]))] = "injected fault id=%d phase=%s occ=%d" % (e["id"], e["phase"], e["occ"])
                seen = {}
                for e in errt:
                    seen.setdefault((e["id"], e["t"]), []).append(e["msg"])
                for key, msg in ftimes.items():
                    got = seen.get(key, [])
                    if len(got) != 1:
                        v = ("error_tick_count", "throw at t=%s under error recorder %s produced %d error ticks" % (key[1], key[0], len(got)))
                        break
                    if msg not in got[0]:
                        v = ("error_message", "error tick carries '%s', thrown was '%s'" % (got[0][:200], msg))
                        break
                if not v:
                    for key in seen:
                        if key not in ftimes:
                            v = ("spurious_error_tick", "error tick at %s without a throw" % (key,))
                            break
                ts = sorted(t for (_, t) in ftimes)
                stats["probe_consecutive_cycles"] += sum(1 for a, b in zip(ts, ts[1:]) if b == a + 1)
                stats["probe_two_failing_nodes_same_cycle"] += len(ts) - len(set(ts))
            if not v:
                # streams of non-descendants identical to the fault-free run
                failing = {t["name"] for t in targets if any(f[0] == t["id"] for f in faults)}
                # a try_except target taints the whole wrapped group and what reads it
                failing |= {n["name"] for n in dataflow.expand(prog)[0] if n.get("try_group") and any(t["kind"] == "try" and t["name"].split(".")[0] == n["try_group"] for t in targets if any(f[0] == t["id"] for f in faults))}
                dead, nodes = descendants(prog, failing)
                dead_ids = {n["id"] for n in nodes if n["name"] in dead and n.get("id")}
                dead_sinks = {s["id"] for s in prog["sinks"] if dataflow.Model(copy.deepcopy(prog)).resolve(s["port"]) in dead or s["port"].lstrip("~") in dead}
                cur = {}
                for e in res.events:
                    if e["k"] in ("ev", "out", "rec") and e.get("id"):
                        cur.setdefault(e["id"], []).append((e["k"], e["t"], e.get("v"), str(e.get("in"))))
                for i in set(base_stream) | set(cur):
                    if i in dead_ids or i in dead_sinks:
                        continue
                    if base_stream.get(i, []) != cur.get(i, []):
                        v = ("independent_stream_disturbed", "id %d does not depend on the failing node(s) %s but its stream changed: fault-free %s, with faults %s" % (
                            i, sorted(failing), base_stream.get(i, [])[:6], cur.get(i, [])[:6]))
                        break
            if not v:
                v = od.check_against_model(p, res)
                if v and any(n.get("g") == "SgFailT" for n in prog["nodes"]):
                    # known finding F20: accepted only if the run equals the model in which a scheduler-driven sibling that was
                    # skipped while its timer was due never wakes on its own again
                    if f20_signature(p, res, [t for (_, t) in ftimes if t is not None]):
                        known = F20
                        v = None
            if v:
                viol = dict(clause=v[0], detail="plan %s: %s" % (faults, v[1]))
                vtext = (faults, text)
                break
        sample = dict(scenario=text0, plans=[list(map(list, p)) for p in plans[:5]])
        if viol:
            sample = dict(scenario=vtext[1], plan=[list(f) for f in vtext[0]])
        elif known:
            viol = dict(clause="known_class:F20", detail="a scheduler-driven sibling inside a try_except child never wakes again after a failure cycle in which its timer was due", known=known)
        return Outcome(violation=viol, stats=stats, digest="%016x" % runner.h64(digests), nontrivial=stats["faults_fired"]["F1_eval_captured"] > 0,
                       sample=sample, shape=runner.h64(dataflow.shape_key(prog), len(plans)))

    def shrink(self, case):
        if case.get("kind") == "map":
            for q in p_c10.PROPERTY.shrink(case["inner"]):
                yield dict(kind="map", inner=q)
            return
        if case.get("plans") is None or len(case["plans"]) > 1:
            base = self.run(case)
            if base.violation and isinstance(base.sample, dict) and "plan" in base.sample:
                yield dict(prog=case["prog"], targets=case["targets"], seed=case.get("seed", 0), plans=[[tuple(f) for f in base.sample["plan"]]])
            return
        plan = case["plans"][0]
        if len(plan) > 1:
            for i in range(len(plan)):
                yield dict(prog=case["prog"], targets=case["targets"], seed=case.get("seed", 0), plans=[plan[:i] + plan[i + 1:]])
        for q in dataflow.shrink_program(dataflow.normalise(case["prog"])):
            yield dict(prog=q, targets=case["targets"], seed=case.get("seed", 0), plans=case["plans"])


PROPERTY = C15()
