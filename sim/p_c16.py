"""C16 - push queue: accepted values are delivered once, in order, within capacity."""
import threads as th
import runner
from framework import Outcome


class ThreadsProperty:
    level = "exploration"
    instr_in_thorough = True      # thorough tier: second pass on the -finstrument-functions build (DESIGN 2.3)
    san = False
    kind = "push"

    def gen(self, seed):
        sc = th.gen_scenario(seed, self.kind)
        if getattr(self, "instr", False):
            # instrumented build: extra pre-emption points inside engine code, on average every <n> function calls
            import random
            r = random.Random(seed ^ 0x1257)
            if self.kind == "push" and r.random() < 0.35:
                # a family made for narrow engine-side windows: cycles that are *not* caused by a push (a timer re-arming itself
                # every few microseconds) while producers send, with pauses, into a queue that is empty most of the time
                period = r.choice((1, 2, 2, 3, 5))
                sc = dict(seed=sc["seed"], start=0, end=r.choice((2000, 3000, 6000)), slice=10_000_000,
                          pushes=[dict(name="p1", policy=r.choice(("queue", "queue", "burst")), capacity=r.choice((0, 0, 2)), id=1)],
                          timers=[dict(id=60, script={k: ["+%d" % period] for k in range(0, r.choice((20, 40, 80)))})],
                          threads=[], work={}, faults={})
                v = 100
                for t in range(r.choice((1, 1, 2))):
                    ops = [("sleep", r.randint(1, 6))]
                    for _ in range(r.randint(4, 10)):
                        ops += [(r.choice(("try", "try", "block")), "p1", v), ("sleep", r.randint(2, 9))]
                        v += 1
                    sc["threads"].append(dict(name="T%d" % t, ops=ops))
            sc["instr"] = r.choice((100, 400, 2000, 2000))
            sc["instr_target"] = r.choice((0, 30, 100, 300, -3000, -3000, -8000))      # a seeded set of call sites is pre-empted at their first entries
            if r.random() < self.sweep_share:
                # systematic site sweep (see run_sweep): one profile run, then one run per candidate call site
                sc["instr_target"] = 0
                sc["faults"] = {}
                return dict(sc=sc, sweep=1)
        return dict(sc=sc)

    sweep_share = 0.1
    sweep_max_sites = 2500

    def run(self, case, fresh=False):
        if case.get("sweep") and not fresh:
            return self.run_sweep(case)
        return self.run_one(dict(sc=case["sc"]), fresh)

    def run_sweep(self, case):
        """Systematic site sweep on the instrumented build. A profile run of the scenario (no extra pre-emption) lists every
        distinct (call site, thread) pair entered while another thread was runnable; the scenario is then run once per listed
        site with that call site as the run's only extra pre-emption point (on up to 64 entries, the thread switched to gets
        a priority burst). A window that is one function call wide inside engine code is met by enumeration, not by luck.
        The first violating run is the outcome (its case carries the site, so shrinking and replay work on a plain case)."""
        import hashlib
        import random
        base = th.normalise(case["sc"])
        prof = dict(base, instr_profile=1)
        prof.pop("instr_site", None)
        out0 = self.run_one(dict(sc=prof), False, keep_events=True)
        if out0.harness_error or out0.violation:
            return out0
        sites = th.profiled_sites(out0.events) or []
        total = len(sites)
        if total > self.sweep_max_sites:
            rr = random.Random(base["seed"])
            sites = sorted(rr.sample(sites, self.sweep_max_sites))
        agg = dict(out0.stats)
        agg["sweep_scenarios"] = 1
        agg["sweep_candidate_sites"] = total
        agg["sweep_site_runs"] = 0
        agg["sweep_sites_that_preempted"] = 0
        h = hashlib.sha256(out0.digest.encode())
        shapes = set()
        for (addr, thread, entries, sym) in sites:
            sc = dict(base, instr_site=addr)
            out = self.run_one(dict(sc=sc), False)
            agg["sweep_site_runs"] += 1
            if out.harness_error:
                return out
            h.update(out.digest.encode())
            for k, v in out.stats.items():
                if isinstance(v, dict):
                    d = agg.setdefault(k, {})
                    for kk, vv in v.items():
                        d[kk] = d.get(kk, 0) + vv
                elif isinstance(v, (int, float)):
                    agg[k] = agg.get(k, 0) + v
            if out.stats.get("instr_preemption_points"):
                agg["sweep_sites_that_preempted"] += 1
            shapes.add(out.shape)
            if out.violation:
                out.violation["detail"] = "[site sweep: %s, thread %d] %s" % (sym or "?", thread, out.violation.get("detail"))
                out.stats = agg
                out.case = dict(sc=sc)
                return out
        agg["sweep_distinct_interleavings"] = len(shapes)
        return Outcome(stats=agg, digest=h.hexdigest()[:16], nontrivial=True, sample=out0.sample, shape=out0.shape)

    def execute(self, case, fresh):
        sc = th.normalise(case["sc"])
        text = th.emit(sc)
        variant = "instr" if sc.get("instr") else self.san
        res = runner.run_fresh(text, san=variant) if fresh else runner.run(text, san=variant, timeout=30)
        return sc, text, res

    def outcome(self, sc, text, res, v, stats, keep_events=False):
        end = [e for e in res.events if e["k"] == "end"]
        if end:
            e = end[0]
            stats["scheduler_steps"] = e.get("steps", 0)
            stats["simulated_time_us"] = e.get("sim_elapsed_us", 0)
            stats["faults_fired"] = {"F2_clock_stall": e.get("stalls", 0), "F3_preemption": e.get("preemptions", 0), "F3_starved_steps": e.get("starved", 0),
                                     "F4_spurious_wakeup": e.get("spurious", 0), "F4_late_timed_wait": e.get("late", 0),
                                     "F5_stop_request": sum(1 for x in res.events if x["k"] == "thr" and x["op"] == "stop" and x["phase"] == "ret")}
            stats["clock_jumps"] = e.get("clock_jumps", 0)
            stats["forced_timeouts"] = e.get("forced_timeouts", 0)
            stats["mutex_blocks"] = e.get("mutex_blocks", 0)
            stats["cond_waits"] = e.get("cond_waits", 0)
            stats["instr_preemption_points"] = e.get("instr_points", 0)
            ihash = e.get("trace_hash")
        else:
            ihash = None
        nontrivial = stats.get("scheduler_steps", 0) >= 30
        if v and sc.get("instr_site"):
            v = (v[0], "[only extra pre-emption point: call site 0x%s of the instrumented build] %s" % (sc["instr_site"], v[1]))
        o = Outcome(violation=dict(clause=v[0], detail=v[1]) if v else None, stats=stats, digest=res.digest, nontrivial=nontrivial,
                    sample=dict(scenario=text, log_head=res.raw[:1500]), shape=ihash)
        if keep_events:
            o.events = res.events
        return o

    def shrink(self, case):
        for q in th.shrink_scenario(th.normalise(case["sc"])):
            yield dict(sc=q)

    def shrink_schedule(self, case, clause):
        """second phase, after the scenario itself is minimal: record the seeded run's schedule and fault decisions as a
        tape, confirm that replaying the tape reproduces the violation, then minimise the tape. The returned case carries
        the tape (its replay no longer depends on the PRNG); if pinning does not reproduce, the seeded case is kept."""
        sc = th.normalise(case["sc"])
        if sc.get("tape") is not None:
            return case, None
        rec = dict(sc, emit_tape=1)
        _, _, res = self.execute(dict(sc=rec), False)
        tape = th.recorded_tape(res.events)
        if tape is None:
            return case, None

        def run_same(t):
            out = self.run(dict(sc=dict(sc, tape=list(t))))
            return bool(out.violation) and out.violation["clause"] == clause and not out.harness_error

        if not run_same(tape):
            return case, dict(pinned=False, decisions=len(tape))
        small, runs = th.shrink_tape(run_same, tape)
        info = dict(pinned=True, decisions_recorded=len(tape), decisions_kept=len(small), non_default=sum(1 for x in small if x), shrink_runs=runs)
        return dict(sc=dict(sc, tape=small)), info


class C16(ThreadsProperty):
    id = "C16"
    kind = "push"
    quick_runs = 3000
    quick_budget_s = 150
    thorough_budget_s = 900
    rule = ("the tree's real push-source node (queue / burst / conflating policy, capacities unbounded/1/2/3), real PushSourceSender, real real-time "
            "executor and graph with collecting sinks run on simulated threads: 1-4 scripted producer threads (try_send / send_blocking / sleep / yield, "
            "unique values), optionally a stopper thread (request_stop at a seeded moment) or the end time, slow evaluations, timers in the same graph. A "
            "seeded scheduler picks the running thread at every intercepted pthread mutex / condition-variable call and advances a simulated clock; "
            "faults: wall-clock stalls, spurious wake-ups, late timed waits, starvation, max_wait_slice from 1 us to 10 s. Oracle over the recorded "
            "invoke/return/deliver history: deliveries are accepted values, each once (queue: one per cycle, strictly increasing times); per-producer "
            "order and real-time order across producers (FIFO linearizability, prefix); every accepted value delivered when nothing stops the run; no "
            "forced time-out of the engine's wait while an accepted value is queued or a stop has returned (lost wake-up); accepted-minus-dequeued "
            "never above capacity; every refusal justified by a possibly full queue or a stop; nothing accepted after stop; no deadlock. non-trivial = "
            ">= 30 scheduler steps; distinct = distinct interleavings (hash of the scheduler decision list)"
            " The instrumented pass of the thorough tier runs site sweeps: a profile run lists every call site entered while another thread was runnable, then one run per site with that site as the only extra pre-emption point.")
    assumptions = ["baton passing serialises threads at synchronisation points: sequentially consistent interleavings only",
                   "the conflating policy is checked for subset / per-producer order / refusals only (merged state of TS<Int> is the last value)"]

    def run_one(self, case, fresh=False, keep_events=False):
        sc, text, res = self.execute(case, fresh)
        if res.timeout:
            return Outcome(harness_error="timeout (real blocking inside the simulator?)", sample=text)
        for e in res.events:
            if e["k"] in ("wire_error", "harness_error"):
                return Outcome(harness_error="%s: %s" % (e["k"], e.get("what")), sample=text)
        if not res.ok and not any(e["k"] == "simfail" for e in res.events):
            return Outcome(violation=dict(clause="crash", detail="harness status=%s signal=%s tail=%s" % (res.status, res.signal, res.raw[-300:])), digest=res.digest,
                           sample=dict(scenario=text))
        h = th.History(res.events, sc)
        v, stats = th.check_push(h)
        return self.outcome(sc, text, res, v, stats, keep_events)


PROPERTY = C16()
