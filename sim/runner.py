"""Harness build + fork-server pool. Standard library only."""
import hashlib
import json
import os
import select
import signal
import subprocess
import sys
import time

VERIF = os.path.dirname(os.path.dirname(os.path.abspath(__file__)))
sys.path.insert(0, os.path.join(VERIF, "build"))

HARNESS_ERROR = 2


class HarnessError(Exception):
    pass


# wall-clock limits of single harness runs are generous (x3) so that a heavily loaded machine does not turn into harness errors;
# a real hang is still caught, just later. VERIF_TIMEOUT_SCALE overrides.
TIMEOUT_SCALE = float(os.environ.get("VERIF_TIMEOUT_SCALE", "3"))
_binary = {}


def ensure_built(san=False):
    """Build (or reuse) the harness for /repo's current working tree. Raises HarnessError on a compile error."""
    key = "instr" if san == "instr" else ("san" if san else "std")
    if key not in _binary:
        import build as _build
        b = _build.build(os.environ.get("VERIF_REPO", "/repo"), san=san, quiet=not os.environ.get("VERIF_VERBOSE"))
        if not b:
            raise HarnessError("build of /repo + harness failed")
        _binary[key] = b
    return _binary[key]


def h64(*parts):
    h = hashlib.sha256()
    for p in parts:
        h.update(str(p).encode())
        h.update(b"\0")
    return int.from_bytes(h.digest()[:8], "big")


class RunResult:
    __slots__ = ("events", "raw", "status", "signal", "timeout", "digest")

    def __init__(self, events, raw, status, sig, timeout):
        self.events = events
        self.raw = raw
        self.status = status
        self.signal = sig
        self.timeout = timeout
        # the text of a wiring error lists nodes in an address-dependent order: it is not part of the digest
        canon = "\n".join(ln.split(',"what"')[0] if ln.startswith('{"k":"wire_error"') else ln for ln in raw.split("\n"))
        self.digest = hashlib.sha256(canon.encode()).hexdigest()[:16]

    @property
    def ok(self):
        return (not self.timeout) and self.status == 0 and self.signal == 0


class Server:
    """One warmed-up `hgsim --server`; every scenario runs in a forked child of it."""

    def __init__(self, binary):
        self.binary = binary
        self.p = None

    def start(self):
        env = dict(os.environ)
        env["ASAN_OPTIONS"] = "detect_leaks=0:abort_on_error=0:exitcode=66"
        env["UBSAN_OPTIONS"] = "print_stacktrace=1:halt_on_error=1:exitcode=66"
        self.p = subprocess.Popen([self.binary, "--server"], stdin=subprocess.PIPE, stdout=subprocess.PIPE,
                                  stderr=subprocess.DEVNULL if not os.environ.get("VERIF_STDERR") else None,
                                  start_new_session=True, env=env)
        self.buf = b""
        line = self._readline(60)
        if line is None or b"ready" not in line:
            raise HarnessError("harness server did not start: %r" % (line,))

    def _readline(self, timeout):
        deadline = time.time() + timeout
        while b"\n" not in self.buf:
            left = deadline - time.time()
            if left <= 0:
                return None
            r, _, _ = select.select([self.p.stdout], [], [], left)
            if not r:
                return None
            chunk = os.read(self.p.stdout.fileno(), 1 << 16)
            if not chunk:
                return None
            self.buf += chunk
        i = self.buf.index(b"\n")
        line, self.buf = self.buf[:i + 1], self.buf[i + 1:]
        return line

    def kill(self):
        if self.p is not None:
            try:
                os.killpg(self.p.pid, signal.SIGKILL)
            except OSError:
                pass
            try:
                self.p.wait(timeout=5)
            except Exception:
                pass
            self.p = None

    def run(self, text, timeout=None):
        timeout = (timeout or 20.0) * TIMEOUT_SCALE
        if self.p is None or self.p.poll() is not None:
            self.start()
        data = (text.rstrip("\n") + "\nEND\n").encode()
        try:
            self.p.stdin.write(data)
            self.p.stdin.flush()
        except OSError:
            self.kill()
            raise HarnessError("harness server died")
        lines = []
        deadline = time.time() + timeout
        while True:
            line = self._readline(max(0.0, deadline - time.time()))
            if line is None:
                self.kill()
                return RunResult(parse_lines(lines), b"".join(lines).decode("utf-8", "replace"), -1, 0, True)
            if line.startswith(b'{"k":"exit"'):
                ex = json.loads(line)
                raw = b"".join(lines).decode("utf-8", "replace")
                return RunResult(parse_lines(lines), raw, ex["status"], ex["signal"], False)
            lines.append(line)


def parse_lines(lines):
    out = []
    for ln in lines:
        try:
            out.append(json.loads(ln))
        except ValueError:
            out.append({"k": "garbage", "raw": ln.decode("utf-8", "replace")})
    return out


def run_fresh(text, timeout=30.0, san=False, nowarm=False):
    timeout = timeout * TIMEOUT_SCALE
    """Run one scenario in a fresh harness process (replay path)."""
    binary = ensure_built(san)
    env = dict(os.environ)
    env["ASAN_OPTIONS"] = "detect_leaks=0:exitcode=66"
    try:
        p = subprocess.run([binary] + (["--nowarm"] if nowarm else []), input=text.encode(), capture_output=True, timeout=timeout, env=env)
    except subprocess.TimeoutExpired as e:
        raw = (e.stdout or b"").decode("utf-8", "replace")
        return RunResult(parse_lines((e.stdout or b"").splitlines(True)), raw, -1, 0, True)
    raw = p.stdout.decode("utf-8", "replace")
    status = p.returncode if p.returncode >= 0 else -1
    sig = -p.returncode if p.returncode < 0 else 0
    return RunResult(parse_lines(p.stdout.splitlines(True)), raw, status, sig, False)


_server = {}


def worker_server(san=False):
    key = "instr" if san == "instr" else ("san" if san else "std")
    if key not in _server:
        _server[key] = Server(ensure_built(san))
    return _server[key]


def run(text, timeout=None, san=False):
    return worker_server(san).run(text, timeout)
