"""C01 - nodes evaluate at most once per cycle and only after their producers; unbroken cycles are rejected at build."""
import copy
import random

import dataflow
import gen_dataflow
import oracle_dataflow as od
import runner
from framework import Outcome


F18 = "F18-map-passive-argument-is-rank-free"


class C01:
    id = "C01"
    level = "exploration"
    quick_runs = 1500
    quick_budget_s = 120
    thorough_budget_s = 900
    san = False
    rule = ("seeded DAG programs (chains, diamonds, fan-in/out, structural TSL/TSB sources, references, inline and nested sub-graphs 1-3 deep, "
            "feedback as the sanctioned back-edge) emitted in a random admissible statement order, with 0-3 consumers wired before their producers "
            "through delayed_binding, x tick scripts in which arbitrary subsets of sources tick together; 10% of cases close a dependency cycle "
            "through delayed_binding and must be rejected by Wiring::finish. Oracles: compiled edges source<target in every (child) graph; per graph "
            "instance and cycle strictly increasing node indices; child graph evaluated inside its parent node's bracket at the parent's time; every "
            "user-code evaluation after all same-cycle evaluations of the producers it reads in the program's own dependency relation; values equal "
            "the reference interpreter (when no depth>=2 nesting is present). non-trivial = at least one cycle in which >= 2 dependent nodes ran; "
            "distinct = distinct (program shape, statement order, cycle times)")
    assumptions = ["the program's dependency relation is computed by the driver from the scenario, not from the engine's edge list"]

    def gen(self, seed):
        rng = random.Random(seed)
        prog = gen_dataflow.gen_program(rng.getrandbits(48))
        cyclic = False
        if rng.random() < 0.10:
            q = gen_dataflow.make_cyclic(copy.deepcopy(prog), rng)
            if q is not None:
                prog, cyclic = q, True
        if not cyclic:
            prog = gen_dataflow.add_delayed(prog, rng, rng.choice((0, 0, 1, 2, 3)))
        try:
            order = gen_dataflow.random_order(prog, rng)
        except ValueError:
            order = None
        return dict(prog=prog, order=order, cyclic=cyclic)

    def run(self, case, fresh=False):
        prog = dataflow.normalise(case["prog"])
        order = case.get("order")
        if order is not None and len(order) != len(dataflow.statements(prog)):
            order = None   # shrunk program: fall back to canonical order
        text = dataflow.emit(prog, order=order)
        res = runner.run_fresh(text, san=self.san) if fresh else runner.run(text, san=self.san)
        if not res.ok:
            return Outcome(harness_error="harness status=%s signal=%s timeout=%s tail=%s" % (res.status, res.signal, res.timeout, res.raw[-300:]), sample=text)
        we = [e for e in res.events if e["k"] == "wire_error"]
        he = [e for e in res.events if e["k"] == "harness_error"]
        if he:
            return Outcome(harness_error="harness_error: %s" % he[0].get("what"), sample=text)
        stats = {}
        sample = dict(scenario=text, log_head=res.raw[:1200])
        if case.get("cyclic"):
            stats["cyclic_programs"] = 1
            ran = [e for e in res.events if e["k"] in ("cyc", "ran", "gstart")]
            if not we or ran:
                return Outcome(violation=dict(clause="cycle_not_rejected", detail="a wiring whose dependencies form a cycle (closed through delayed_binding, no feedback) was built%s" % (" and run" if ran else "")),
                               stats=stats, digest=res.digest, sample=sample)
            stats["cyclic_rejected"] = 1
            return Outcome(stats=stats, digest=res.digest, nontrivial=True, sample=sample, shape=runner.h64("cyc", dataflow.shape_key(prog)))
        if we:
            return Outcome(harness_error="wire_error on an acyclic program: %s" % we[0].get("what"), sample=text)
        ran = [e for e in res.events if e["k"] == "ran"]
        if not ran or ran[0]["run"] != "ok":
            return Outcome(violation=dict(clause="run_threw", detail=ran[0].get("what") if ran else "no ran event"), digest=res.digest, sample=sample)
        v, n_edges = od.check_edges(res.events)
        stats["edges_checked"] = n_edges
        n_pairs = 0
        if not v:
            v, n_ne = od.check_eval_order(res.events)
            stats["node_visits_checked"] = n_ne
        if not v:
            v, n_pairs = od.check_user_order(prog, res.events)
            stats["producer_consumer_pairs_checked"] = n_pairs
        deep = any(n["kind"] in ("nested2", "nested3") for n in prog["nodes"])
        if not v and not deep:
            v = od.check_against_model(prog, res)
            stats["value_compared_runs"] = 1
        stats["cycles"] = sum(1 for e in res.events if e["k"] == "cyc" and e["g"] == 0)
        stats["child_graph_cycles"] = sum(1 for e in res.events if e["k"] == "cyc" and e["g"] > 0)
        stats["probe_delayed_bindings"] = sum(1 for n in prog["nodes"] if n["kind"] == "delayed")
        stats["probe_permuted_order"] = 1 if order is not None and order != list(range(len(order))) else 0
        stats["simulated_time_us"] = prog["window"][1] - prog["window"][0]
        shape = runner.h64(dataflow.shape_key(prog), order, [e["t"] for e in res.events if e["k"] == "cyc" and e["g"] == 0])
        return Outcome(violation=dict(clause=v[0], detail=v[1]) if v else None, stats=stats, digest=res.digest, nontrivial=n_pairs > 0,
                       sample=sample, shape=shape)

    F18_SCENARIO = ("mode higher_order\nwindow 0 8\nwriter 1 shape=TSD\nwscript 1 0|d={\"removed\":[],\"modified\":{\"1\":100}};;2|d={\"removed\":[],\"modified\":{\"1\":200}}\n"
                    "writer 2 shape=TS\nwscript 2 0|d=0;;1|d=10;;2|d=20;;3|d=30\nchain 5 src=2 n=2\nmap 10 fn=Add2 d=1 b=5 pb=1\ncons 11 10\n")

    def demonstrate_known(self, k):
        """F18 lies outside the generated dataflow vocabulary (map_ with a passive(port) argument): one fixed scenario
        re-demonstrates it on every run - the compiled root graph holds an edge whose producer is ranked after its consumer,
        and the map_ node is evaluated before that producer in the cycles in which both run."""
        if k["id"] != F18:
            return False
        res = runner.run(self.F18_SCENARIO, san=self.san)
        wire = [e for e in res.events if e["k"] == "wire"]
        if not wire:
            return False
        labels = [n["label"] for n in wire[0]["graph"]["nodes"]]
        back = [(a, b) for (a, b, *_rest) in wire[0]["graph"].get("edges", []) if a >= b]
        if not any(labels[b] == "map_" for a, b in back):
            return False
        # and at run time: in one cycle the map_ node runs before the producer it reads
        order = {}
        cyc = None
        for e in res.events:
            if e["k"] == "cyc" and e["g"] == 0:
                cyc = e["t"]
                order[cyc] = []
            elif e["k"] == "ne" and e["g"] == 0 and cyc is not None:
                order[cyc].append(e["i"])
        return any(a in o and b in o and o.index(b) < o.index(a) for o in order.values() for (a, b) in back)

    def shrink(self, case):
        if case.get("cyclic"):
            return
        for q in dataflow.shrink_program(dataflow.normalise(case["prog"])):
            yield dict(prog=q, order=None, cyclic=False)


PROPERTY = C01()
