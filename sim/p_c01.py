"""C01 - nodes evaluate at most once per cycle and only after their producers; unbroken cycles are rejected at build."""
import copy
import random

import dataflow
import gen_dataflow
import oracle_dataflow as od
import runner
from framework import Outcome


F18 = "F18-map-passive-argument-is-rank-free"


class C01:
    id = "C01"
    level = "exploration"
    quick_runs = 1500
    quick_budget_s = 120
    thorough_budget_s = 900
    san = False
    rule = ("seeded DAG programs (chains, diamonds, fan-in/out, structural TSL/TSB sources, references, inline and nested sub-graphs 1-3 deep, "
            "feedback as the sanctioned back-edge) emitted in a random admissible statement order, with 0-3 consumers wired before their producers "
            "through delayed_binding, x tick scripts in which arbitrary subsets of sources tick together; 10% of cases close a dependency cycle "
            "through delayed_binding and must be rejected by Wiring::finish. Oracles: compiled edges source<target in every (child) graph; per graph "
            "instance and cycle strictly increasing node indices; child graph evaluated inside its parent node's bracket at the parent's time; every "
            "user-code evaluation after all same-cycle evaluations of the producers it reads in the program's own dependency relation; values equal "
            "the reference interpreter (when no depth>=2 nesting is present). non-trivial = at least one cycle in which >= 2 dependent nodes ran; "
            "distinct = distinct (program shape, statement order, cycle times)"
            " Round 3: 8% of the runs are mesh_ graphs (instances reading each other through mesh_ref, paused and resumed within a cycle): user code of every instance node at most once per cycle, producer before consumer.")
    assumptions = ["the program's dependency relation is computed by the driver from the scenario, not from the engine's edge list"]

    def gen_mesh(self, rng):
        """mesh_ over a dictionary of links (link[k] < k: no cyclic dependency): instances read each other through mesh_ref; an
        instance whose dependency is created on demand or not settled yet pauses and is resumed within the cycle"""
        import coll
        end = rng.choice((6, 10, 14))
        st = {}
        script = {}
        t = rng.choice((0, 0, 1))
        for _ in range(rng.randint(2, 6)):
            if t >= end:
                break
            removed, modified = [], {}
            for _ in range(rng.choice((1, 2, 3, 5))):
                k = rng.randint(1, 9)
                # (links are added and re-pointed, never removed: what a mesh does with a dependency on an instance whose link entry
                #  was removed in the same cycle is outside this property - the run threw on such a history)
                modified[str(k)] = rng.randint(0, k - 1)
            for k in removed:
                st.pop(k, None)
            for k, v in modified.items():
                st[int(k)] = v
            script[t] = [["d", coll.jd({"removed": removed, "modified": modified})]]
            t += rng.choice((1, 1, 2, 3))
        return dict(kind="mesh", sc=dict(window=(0, end), writers=[dict(id=1, shape="TSD", script=script)], stmts=["mesh 10 d=1", "cons 11 10"]))

    def run_mesh(self, case, fresh):
        import ho
        sc = ho.normalise(case["sc"])
        text = ho.emit(sc)
        res = runner.run_fresh(text, san=self.san) if fresh else runner.run(text, san=self.san)
        if not res.ok:
            if res.timeout:
                return Outcome(harness_error="timeout", sample=text)
            return Outcome(violation=dict(clause="crash", detail="harness status=%s signal=%s tail=%s" % (res.status, res.signal, res.raw[-300:])), digest=res.digest, sample=dict(scenario=text))
        for e in res.events:
            if e["k"] in ("wire_error", "harness_error"):
                return Outcome(harness_error="%s: %s" % (e["k"], e.get("what")), sample=text)
        sample = dict(scenario=text, log_head=res.raw[:1200])
        ran = [e for e in res.events if e["k"] == "ran"]
        # (a mesh run that throws - "mesh_ failed to settle within the cycle" was seen on the unchanged tree for an acyclic link
        #  history in which a key is re-pointed while a new key that depends on it arrives - is not a matter of this property: it is
        #  counted, the evaluations logged up to the throw are still checked)
        threw = 1 if (not ran or ran[0]["run"] != "ok") else 0
        # user code of every node of every mesh instance: at most once per cycle, the producer (probe) before its consumer (tail)
        seen = {}
        v = None
        for idx, e in enumerate(res.events):
            if e["k"] == "h" and e["e"] == "ev" and e["f"] in ("MeshProbe", "MeshTail"):
                key = (e["f"], e["a"], e["t"])
                if key in seen:
                    v = ("evaluated_twice", "user code of %s in the mesh instance of key %d ran twice in the cycle at t=%d" % (e["f"], e["a"], e["t"]))
                    break
                seen[key] = idx
        n_pairs = 0
        if not v:
            for (f, k, t), idx in seen.items():
                if f == "MeshTail" and ("MeshProbe", k, t) in seen:
                    n_pairs += 1
                    if seen[("MeshProbe", k, t)] > idx:
                        v = ("user_order", "mesh instance %d at t=%d: the consumer ran before the producer it reads" % (k, t))
                        break
        stats = dict(mesh_runs=1, mesh_runs_that_threw=threw, mesh_user_evaluations=len(seen), producer_consumer_pairs_checked=n_pairs,
                     probe_mesh_instances=len({k for (_, k, _) in seen}), cycles=sum(1 for e in res.events if e["k"] == "cyc" and e["g"] == 0),
                     child_graph_cycles=sum(1 for e in res.events if e["k"] == "cyc" and e["g"] > 0), simulated_time_us=sc["window"][1])
        return Outcome(violation=dict(clause=v[0], detail=v[1]) if v else None, stats=stats, digest=res.digest, nontrivial=len(seen) >= 3, sample=sample, shape=runner.h64(text))

    def gen(self, seed):
        rng = random.Random(seed)
        if random.Random(seed ^ 0x3E5).random() < 0.08:
            return self.gen_mesh(rng)
        prog = gen_dataflow.gen_program(rng.getrandbits(48))
        cyclic = False
        if rng.random() < 0.10:
            q = gen_dataflow.make_cyclic(copy.deepcopy(prog), rng)
            if q is not None:
                prog, cyclic = q, True
        if not cyclic:
            prog = gen_dataflow.add_delayed(prog, rng, rng.choice((0, 0, 1, 2, 3)))
        try:
            order = gen_dataflow.random_order(prog, rng)
        except ValueError:
            order = None
        return dict(prog=prog, order=order, cyclic=cyclic)

    def run(self, case, fresh=False):
        if case.get("kind") == "mesh":
            return self.run_mesh(case, fresh)
        prog = dataflow.normalise(case["prog"])
        order = case.get("order")
        if order is not None and len(order) != len(dataflow.statements(prog)):
            order = None   # shrunk program: fall back to canonical order
        text = dataflow.emit(prog, order=order)
        res = runner.run_fresh(text, san=self.san) if fresh else runner.run(text, san=self.san)
        if not res.ok:
            return Outcome(harness_error="harness status=%s signal=%s timeout=%s tail=%s" % (res.status, res.signal, res.timeout, res.raw[-300:]), sample=text)
        we = [e for e in res.events if e["k"] == "wire_error"]
        he = [e for e in res.events if e["k"] == "harness_error"]
        if he:
            return Outcome(harness_error="harness_error: %s" % he[0].get("what"), sample=text)
        stats = {}
        sample = dict(scenario=text, log_head=res.raw[:1200])
        if case.get("cyclic"):
            stats["cyclic_programs"] = 1
            ran = [e for e in res.events if e["k"] in ("cyc", "ran", "gstart")]
            if not we or ran:
                return Outcome(violation=dict(clause="cycle_not_rejected", detail="a wiring whose dependencies form a cycle (closed through delayed_binding, no feedback) was built%s" % (" and run" if ran else "")),
                               stats=stats, digest=res.digest, sample=sample)
            stats["cyclic_rejected"] = 1
            return Outcome(stats=stats, digest=res.digest, nontrivial=True, sample=sample, shape=runner.h64("cyc", dataflow.shape_key(prog)))
        if we:
            return Outcome(harness_error="wire_error on an acyclic program: %s" % we[0].get("what"), sample=text)
        ran = [e for e in res.events if e["k"] == "ran"]
        if not ran or ran[0]["run"] != "ok":
            return Outcome(violation=dict(clause="run_threw", detail=ran[0].get("what") if ran else "no ran event"), digest=res.digest, sample=sample)
        v, n_edges = od.check_edges(res.events)
        stats["edges_checked"] = n_edges
        n_pairs = 0
        if not v:
            v, n_ne = od.check_eval_order(res.events)
            stats["node_visits_checked"] = n_ne
        if not v:
            v, n_pairs = od.check_user_order(prog, res.events)
            stats["producer_consumer_pairs_checked"] = n_pairs
        deep = any(n["kind"] in ("nested2", "nested3") for n in prog["nodes"])
        if not v and not deep:
            v = od.check_against_model(prog, res)
            stats["value_compared_runs"] = 1
        stats["cycles"] = sum(1 for e in res.events if e["k"] == "cyc" and e["g"] == 0)
        stats["child_graph_cycles"] = sum(1 for e in res.events if e["k"] == "cyc" and e["g"] > 0)
        stats["probe_delayed_bindings"] = sum(1 for n in prog["nodes"] if n["kind"] == "delayed")
        stats["probe_permuted_order"] = 1 if order is not None and order != list(range(len(order))) else 0
        stats["simulated_time_us"] = prog["window"][1] - prog["window"][0]
        shape = runner.h64(dataflow.shape_key(prog), order, [e["t"] for e in res.events if e["k"] == "cyc" and e["g"] == 0])
        return Outcome(violation=dict(clause=v[0], detail=v[1]) if v else None, stats=stats, digest=res.digest, nontrivial=n_pairs > 0,
                       sample=sample, shape=shape)

    F18_SCENARIO = ("mode higher_order\nwindow 0 8\nwriter 1 shape=TSD\nwscript 1 0|d={\"removed\":[],\"modified\":{\"1\":100}};;2|d={\"removed\":[],\"modified\":{\"1\":200}}\n"
                    "writer 2 shape=TS\nwscript 2 0|d=0;;1|d=10;;2|d=20;;3|d=30\nchain 5 src=2 n=2\nmap 10 fn=Add2 d=1 b=5 pb=1\ncons 11 10\n")

    def demonstrate_known(self, k):
        """F18 lies outside the generated dataflow vocabulary (map_ with a passive(port) argument): one fixed scenario
        re-demonstrates it on every run - the compiled root graph holds an edge whose producer is ranked after its consumer,
        and the map_ node is evaluated before that producer in the cycles in which both run."""
        if k["id"] != F18:
            return False
        res = runner.run(self.F18_SCENARIO, san=self.san)
        wire = [e for e in res.events if e["k"] == "wire"]
        if not wire:
            return False
        labels = [n["label"] for n in wire[0]["graph"]["nodes"]]
        back = [(a, b) for (a, b, *_rest) in wire[0]["graph"].get("edges", []) if a >= b]
        if not any(labels[b] == "map_" for a, b in back):
            return False
        # and at run time: in one cycle the map_ node runs before the producer it reads
        order = {}
        cyc = None
        for e in res.events:
            if e["k"] == "cyc" and e["g"] == 0:
                cyc = e["t"]
                order[cyc] = []
            elif e["k"] == "ne" and e["g"] == 0 and cyc is not None:
                order[cyc].append(e["i"])
        return any(a in o and b in o and o.index(b) < o.index(a) for o in order.values() for (a, b) in back)

    def shrink(self, case):
        if case.get("kind") == "mesh":
            import ho
            sc = ho.normalise(case["sc"])
            for off in sorted(sc["writers"][0]["script"]):
                if len(sc["writers"][0]["script"]) > 1:
                    q = copy.deepcopy(sc)
                    del q["writers"][0]["script"][off]
                    yield dict(kind="mesh", sc=q)
            return
        if case.get("cyclic"):
            return
        for q in dataflow.shrink_program(dataflow.normalise(case["prog"])):
            yield dict(prog=q, order=None, cyclic=False)


PROPERTY = C01()
