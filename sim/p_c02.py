"""C02 - simulation honours every scheduled wake-up at exactly its time, in order; no unrequested cycle."""
import copy
import random

import dataflow
import gen_dataflow
import oracle_dataflow as od
import runner
from framework import Outcome


def scale_times(prog, k):
    """stretch all script offsets (far-future requests cost nothing in discrete-event time)"""
    s0 = prog["window"][0]
    prog["scripts"] = {i: {s0 + (o - s0) * k if o >= s0 else o: v for o, v in sc.items()} for i, sc in prog["scripts"].items()}
    prog["window"] = (s0, s0 + (prog["window"][1] - s0) * k)
    return prog


F19 = "F19-single-shot-wake-up-lost-after-earlier-evaluation"


class C02:
    id = "C02"
    level = "exploration"
    quick_runs = 1200
    quick_budget_s = 120
    thorough_budget_s = 900
    san = False
    rule = ("seeded programs whose nodes request wake-ups from every origin (scripted sources incl. equal times from different nodes and consecutive "
            "MIN_TD steps, scheduler-scripted nodes requesting during start for now/future and during evaluation for +1..+far and past, tickers, "
            "const with delay, feedback deliveries, the same inside nested children 1-3 deep under an otherwise idle parent) x run windows (random "
            "start, end = start+1, end in the middle of pending wake-ups, end equal to a requested time, offsets stretched up to 1e9) x wall-clock "
            "faults (stall/coarse clock: the trace must be byte-identical to the fault-free run). Oracle: strictly increasing cycle times inside "
            "[start,end); every accepted request logged by the requesting node is honoured by a cycle at exactly that time in which the requester "
            "runs; the set of cycle times equals the discrete-event reference model's (no dropped, coalesced, early, late or unrequested cycle); child "
            "graph evaluation times equal the enclosing root cycle. non-trivial = >= 2 honoured requests; distinct = distinct (shape, cycle times)")
    assumptions = ["cancelled requests are excluded here (C18 owns them)", "the framework start-up sample of a REF-input node counts as requested by that node"]
    allow = dict(how=("inline", "nested"), sshot=True)

    def gen(self, seed):
        rng = random.Random(seed)
        prog = gen_dataflow.gen_program(rng.getrandbits(48), allow=self.allow)
        # deep nested children below an otherwise idle parent: outputs go to recorders only
        names = [n["name"] for n in prog["nodes"] if n["kind"] not in ("feedback", "delayed")]
        nid = 3000
        for _ in range(rng.choice((0, 1, 1, 2))):
            g = rng.choice(("SgTimer", "SgSrc", "SgOwn", "SgDeep"))
            how = rng.choice(("nested", "nested2", "nested3"))
            nm = "z%d" % nid
            if g == "SgSrc":
                prog["scripts"][nid * 10 + 1] = gen_dataflow.gen_script(rng, prog["window"][1], dense=rng.random() < 0.3)
            prog["nodes"].append(dict(name=nm, kind=how, g=g, args=[rng.choice(names)], p=rng.randint(1, 4), q=rng.choice((1, 1, 2, 5)), id=nid))
            prog["sinks"].append(dict(kind="rec", id=nid + 500, port=nm))
            nid += 1
        s, e = prog["window"]
        r = rng.random()
        if r < 0.15:
            prog["window"] = (s, s + 1)
        elif r < 0.45:
            times = sorted({o for sc in prog["scripts"].values() for o in sc if o > s})
            if times:
                prog["window"] = (s, rng.choice(times) + rng.choice((0, 0, 1)))
        has_loop = any(n["kind"] == "feedback" or n.get("g") == "SgFb" for n in prog["nodes"])
        if rng.random() < 0.25 and not has_loop:
            prog = scale_times(prog, rng.choice((1000, 10 ** 6, 10 ** 9)))
        clock = dict(seed=rng.getrandbits(32), stall_rate=rng.choice((0.02, 0.2, 0.5)), stall_us=rng.choice((1000, 10 ** 6, 10 ** 9)), coarse=rng.choice((0, 1)))
        return dict(prog=prog, clock=clock)

    def run(self, case, fresh=False):
        prog = dataflow.normalise(case["prog"])
        text = dataflow.emit(prog)
        res = runner.run_fresh(text, san=self.san) if fresh else runner.run(text, san=self.san)
        if not res.ok:
            return Outcome(harness_error="harness status=%s signal=%s timeout=%s tail=%s" % (res.status, res.signal, res.timeout, res.raw[-300:]), sample=text)
        for e in res.events:
            if e["k"] in ("wire_error", "harness_error"):
                return Outcome(harness_error="%s: %s" % (e["k"], e.get("what")), sample=text)
        sample = dict(scenario=text, log_head=res.raw[:1200])
        ran = [e for e in res.events if e["k"] == "ran"]
        if not ran or ran[0]["run"] != "ok":
            return Outcome(violation=dict(clause="run_threw", detail=ran[0].get("what") if ran else "no ran event"), digest=res.digest, sample=sample)
        v, stats = od.check_wakeups(prog, res.events)
        stats = stats or {}
        known = None
        quirks = True
        if v and any(n["kind"] == "sshot" for n in prog["nodes"]):
            # known finding F19: a wake-up asked for through SingleShotScheduler is lost when the node is evaluated earlier
            # because an input ticked. Accepted only if the whole run equals the model in which exactly that happens.
            mq, qcycles, qevents = dataflow.predicted(prog, quirks="sshot")
            cycles = [e["t"] for e in res.events if e["k"] == "cyc" and e["g"] == 0]
            ss_ids = {n["id"] for n in prog["nodes"] if n["kind"] == "sshot"}
            got = sorted((e["id"], e["t"]) for e in res.events if e["k"] == "ev" and e["id"] in ss_ids)
            want = sorted((e["id"], e["t"]) for e in qevents if e["k"] == "ev" and e["id"] in ss_ids)
            if getattr(mq, "sshot_lost", 0) and qcycles == cycles and got == want:
                known = F19
                quirks = "sshot"
                stats = dict(probe_single_shot_lost=mq.sshot_lost)
                v = None
        if not v:
            v, _ = od.check_eval_order(res.events)
        if not v:
            m, mcycles, _ = dataflow.predicted(prog, quirks=quirks)
            cycles = [e["t"] for e in res.events if e["k"] == "cyc" and e["g"] == 0]
            if mcycles != cycles:
                extra = sorted(set(cycles) - set(mcycles))
                missing = sorted(set(mcycles) - set(cycles))
                v = ("cycle_set", "cycles the model does not explain: %s; requested times without a cycle: %s" % (extra[:10], missing[:10]))
        if not v and case.get("clock"):
            p2 = copy.deepcopy(prog)
            p2["clock"] = case["clock"]
            res2 = runner.run_fresh(dataflow.emit(p2), san=self.san) if fresh else runner.run(dataflow.emit(p2), san=self.san)
            if not res2.ok:
                return Outcome(harness_error="harness (clock faults) status=%s" % res2.status, sample=text)
            a = [l for l in res.raw.split("\n") if not l.startswith('{"k":"end"')]
            b = [l for l in res2.raw.split("\n") if not l.startswith('{"k":"end"')]
            fired = [e for e in res2.events if e["k"] == "end"][0].get("clock_faults", 0)
            stats["faults_fired"] = {"F2_wall_clock_stall": fired}
            if a != b:
                first = next((i for i, (x, y) in enumerate(zip(a, b)) if x != y), min(len(a), len(b)))
                v = ("wall_clock_dependence", "trace differs under wall-clock faults at line %d: %s | %s" % (first, a[first][:200] if first < len(a) else "-", b[first][:200] if first < len(b) else "-"))
        cycles = [e["t"] for e in res.events if e["k"] == "cyc" and e["g"] == 0]
        stats["cycles"] = len(cycles)
        stats["child_graph_cycles"] = sum(1 for e in res.events if e["k"] == "cyc" and e["g"] > 0)
        stats["simulated_time_us"] = prog["window"][1] - prog["window"][0]
        stats["probe_window_one_step"] = 1 if prog["window"][1] == prog["window"][0] + 1 else 0
        stats["probe_far_future"] = 1 if prog["window"][1] - prog["window"][0] > 10 ** 5 else 0
        shape = runner.h64(dataflow.shape_key(prog), cycles)
        viol = dict(clause=v[0], detail=v[1]) if v else (dict(clause="known_class:F19", detail="a SingleShotScheduler wake-up was lost after an earlier input-driven evaluation", known=known) if known else None)
        return Outcome(violation=viol, stats=stats, digest=res.digest,
                       nontrivial=stats.get("requests_honoured_in_window", 0) >= 2 or bool(known), sample=sample, shape=shape)

    def shrink(self, case):
        for q in dataflow.shrink_program(dataflow.normalise(case["prog"])):
            yield dict(prog=q, clock=case.get("clock"))
        if case.get("clock"):
            yield dict(prog=case["prog"], clock=None)


PROPERTY = C02()
