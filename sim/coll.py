"""mode collections: shapes, delta generation, the Python container model, scenario emission."""
import copy
import json
import random

TSI = ("TS", "int")
TSSI = ("TSS", "int")
B2 = ("TSB", (("a", TSI), ("b", TSI)))
SHAPES = {
    "TS": TSI, "TSStr": ("TS", "str"), "SIGNAL": ("SIGNAL",),
    "TSS": TSSI, "TSSStr": ("TSS", "str"),
    "TSD": ("TSD", "int", TSI), "TSDStr": ("TSD", "str", TSI),
    "TSL": ("TSL", TSI, 3), "TSB": B2, "TSBS": ("TSB", (("a", TSI), ("s", TSSI))),
    "TSW": ("TSW", 3, 2),
    "TSDB": ("TSD", "int", B2), "TSDD": ("TSD", "int", ("TSD", "int", TSI)), "TSDS": ("TSD", "int", TSSI),
    "TSLS": ("TSL", TSSI, 2), "TSDL": ("TSD", "str", ("TSL", TSI, 2)),
    # composite bundle fields that can be partially valid, and windows below a dictionary
    "TSBL": ("TSB", (("a", TSI), ("l", ("TSL", TSI, 2)))), "TSBB": ("TSB", (("a", TSI), ("q", B2))),
    "TSDW": ("TSD", "int", ("TSW", 3, 2)),
    "TSDBS": ("TSD", "int", ("TSB", (("a", TSI), ("s", TSSI)))), "TSLB": ("TSL", B2, 2),
    "TSBW": ("TSB", (("a", TSI), ("w", ("TSW", 3, 2)))),
}
TYPED = ("TS", "TSS", "TSD", "TSL", "TSB", "TSW")


def jd(x):
    return json.dumps(x, separators=(",", ":"))


def fresh(shape):
    k = shape[0]
    if k in ("TS", "SIGNAL"):
        return None
    if k == "TSS":
        return None          # invalid until the first tick; then a set
    if k == "TSD":
        return None
    if k == "TSL":
        return [fresh(shape[1]) for _ in range(shape[2])]
    if k == "TSB":
        return {f: fresh(s) for f, s in shape[1]}
    if k == "TSW":
        return None
    raise ValueError(shape)


def key_of(kind, rng, pool=6):
    if kind == "int":
        return rng.randint(1, pool)
    return rng.choice("abcdef"[:pool])


def kstr(k):
    return str(k)


def apply(shape, state, delta):
    """apply a canonical delta (python structure, as decoded from JSON) to a model state; returns the new state"""
    k = shape[0]
    if k == "TS":
        return delta
    if k == "SIGNAL":
        return True
    if k == "TSS":
        s = set(state) if state is not None else set()
        for x in delta.get("removed", []):
            s.discard(x)
        for x in delta.get("added", []):
            s.add(x)
        return s
    if k == "TSD":
        d = dict(state) if state is not None else {}
        conv = (lambda x: int(x)) if shape[1] == "int" else (lambda x: x)
        for x in delta.get("removed", []):
            d.pop(conv(x), None)
        for key, cd in delta.get("modified", {}).items():
            key = conv(key)
            d[key] = apply(shape[2], d.get(key, fresh(shape[2])), cd)
        return d
    if k == "TSL":
        lst = list(state)
        for i, cd in delta.items():
            lst[int(i)] = apply(shape[1], lst[int(i)], cd)
        return lst
    if k == "TSB":
        b = dict(state)
        for f, s in shape[1]:
            if delta.get(f) is not None:
                b[f] = apply(s, b[f], delta[f])
        return b
    if k == "TSW":
        w = list(state) if state is not None else []
        w.append(delta)
        return w[-shape[1]:]
    raise ValueError(shape)


def has_window(shape):
    return shape[0] == "TSW" or any(has_window(x) for x in shape[1:] if isinstance(x, tuple) and x and isinstance(x[0], str) and x[0].startswith("TS")) or (
        shape[0] == "TSB" and any(has_window(s) for _, s in shape[1]))


def is_valid(shape, state):
    k = shape[0]
    if k == "TSW":
        return state is not None and len(state) >= shape[2]      # a tick-count window is valid once its minimum count is reached
    if k in ("TS", "SIGNAL", "TSS", "TSD"):
        return state is not None
    # a fixed-shape parent is valid from the first write to any of its children (a window child that was pushed to but is
    # still below its minimum count has been written although it is not valid itself)
    if k == "TSL":
        return any(was_written(shape[1], c) for c in state)
    if k == "TSB":
        return any(was_written(s, state[f]) for f, s in shape[1])


def was_written(shape, state):
    return state is not None if shape[0] == "TSW" else is_valid(shape, state)


def gen_delta(shape, state, rng, depth=0):
    """a random canonical delta for the shape given the current model state, biased to the rarely exercised paths"""
    k = shape[0]
    if k == "TS":
        return rng.randint(0, 99) if shape[1] == "int" else rng.choice(("a", "bb", "abc", ""))
    if k == "SIGNAL":
        return True
    if k == "TSS":
        cur = set(state) if state else set()
        added, removed = set(), set()
        for _ in range(rng.choice((0, 1, 1, 2, 3))):
            x = key_of(shape[1], rng, rng.choice((4, 6, 6, 70)))
            if x in cur and rng.random() < 0.6:
                removed.add(x)
            elif x not in cur:
                added.add(x)
        if rng.random() < 0.1:
            removed = set(cur)            # clear
            added -= removed
        return {"added": sorted(added - removed), "removed": sorted(removed)}
    if k == "TSD":
        cur = dict(state) if state else {}
        removed, modified = [], {}
        for _ in range(rng.choice((0, 1, 1, 2, 3))):
            key = key_of(shape[1], rng, rng.choice((4, 6, 6, 70)))
            r = rng.random()
            if key in cur and r < 0.35:
                if key not in removed and kstr(key) not in modified:
                    removed.append(key)
            elif kstr(key) not in modified and key not in removed:
                modified[kstr(key)] = gen_delta(shape[2], cur.get(key, fresh(shape[2])), rng, depth + 1)
            if r > 0.9 and key in cur and key in removed and rng.random() < 0.5:
                pass
        if rng.random() < 0.08 and cur:
            # remove + re-add of an existing key in one delta
            key = rng.choice(sorted(cur, key=str))
            if key not in removed and kstr(key) not in modified:
                removed.append(key)
                modified[kstr(key)] = gen_delta(shape[2], fresh(shape[2]), rng, depth + 1)
        return {"removed": removed, "modified": modified}
    if k == "TSL":
        out = {}
        for i in range(shape[2]):
            if rng.random() < 0.45:
                out[str(i)] = gen_delta(shape[1], state[i], rng, depth + 1)
        if not out:
            i = rng.randrange(shape[2])
            out[str(i)] = gen_delta(shape[1], state[i], rng, depth + 1)
        return out
    if k == "TSB":
        out = {}
        names = [f for f, _ in shape[1]]
        for f, s in shape[1]:
            out[f] = gen_delta(s, state[f], rng, depth + 1) if rng.random() < 0.5 else None
        if all(v is None for v in out.values()):
            f, s = rng.choice(shape[1])
            out[f] = gen_delta(s, state[f], rng, depth + 1)
        return out
    if k == "TSW":
        return rng.randint(0, 99)
    raise ValueError(shape)


def gen_typed_ops(shape_name, state, rng):
    """ops for the typed writers (authoring API mutators); returns (ops, new model state)"""
    shape = SHAPES[shape_name]
    ops = []
    st = copy.deepcopy(state)
    n = rng.choice((1, 1, 2, 3, 4))
    if shape_name == "TSW":
        n = 1          # a window accepts one tick per evaluation time
    for _ in range(n):
        if shape_name == "TS":
            v = rng.randint(0, 99)
            ops.append(("set", str(v)))
            st = v
        elif shape_name == "TSS":
            cur = set(st) if st is not None else set()
            r = rng.random()
            x = rng.randint(1, rng.choice((4, 6, 70)))
            if r < 0.5:
                ops.append(("add", str(x)))
                cur.add(x)
            elif r < 0.9:
                ops.append(("rem", str(x)))
                cur.discard(x)
            else:
                ops.append(("clear", ""))
                cur = set()
            st = cur
        elif shape_name == "TSD":
            cur = dict(st) if st is not None else {}
            r = rng.random()
            key = rng.randint(1, rng.choice((4, 6, 70)))
            if r < 0.6:
                v = rng.randint(0, 99)
                # "setc": an existing entry is written through its child output (falls back to out[key] for a new key)
                ops.append(("setc" if rng.random() < 0.4 else "set", "%d:%d" % (key, v)))
                cur[key] = v
            elif r < 0.93:
                ops.append(("del", str(key)))
                cur.pop(key, None)
            else:
                ops.append(("clear", ""))
                cur = {}
            st = cur
        elif shape_name == "TSL":
            i, v = rng.randrange(3), rng.randint(0, 99)
            ops.append(("seti", "%d:%d" % (i, v)))
            st = list(st)
            st[i] = v
        elif shape_name == "TSB":
            f, v = rng.choice("ab"), rng.randint(0, 99)
            ops.append(("setf", "%s:%d" % (f, v)))
            st = dict(st)
            st[f] = v
        elif shape_name == "TSW":
            v = rng.randint(0, 99)
            ops.append(("push", str(v)))
            w = list(st) if st is not None else []
            w.append(v)
            st = w[-3:]
    return ops, st


def gen_writer(rng, wid, shape_name, end, typed=False, composite_inv=False):
    shape = SHAPES[shape_name]
    state = fresh(shape)
    script = {}
    t = rng.choice((0, 0, 1, 2))
    for _ in range(rng.randint(2, 9)):
        if t >= end:
            break
        if typed:
            ops, state = gen_typed_ops(shape_name, state, rng)
            script[t] = [list(o) for o in ops]
        else:
            ops = []
            for _ in range(1 if has_window(shape) else rng.choice((1, 1, 1, 2, 3))):
                if shape_name in ("TS", "TSStr") and rng.random() < 0.08 and state is not None:
                    ops.append(["inv", ""])
                    state = None
                elif composite_inv and shape[0] in ("TSB", "TSL") and not has_window(shape) and is_valid(shape, state) and rng.random() < 0.06:
                    # explicit invalidation of a fixed-shape composite endpoint (all children go invalid with it; what an
                    # invalidated set or dictionary holds afterwards is not defined by the statements, so those are left out)
                    ops.append(["inv", ""])
                    state = fresh(shape)
                else:
                    d = gen_delta(shape, state, rng)
                    ops.append(["d", jd(d)])
                    state = apply(shape, state, d)
            script[t] = ops
        t += rng.choice((1, 1, 1, 2, 3, 5))
    return dict(id=wid, shape=shape_name, typed=1 if typed else 0, script=script)


def gen_window_family(rng):
    """stdlib::to_window over a scripted TS<Int>: tick-count and duration windows, resettable or not. Push times come in phases
    (sparse, then dense, then sparse ...) so that a duration window's ring buffer wraps while small and has to grow while wrapped;
    tick-count windows see resets before, with and after pushes and runs longer than their period."""
    end = rng.choice((20, 40, 70))
    sc = dict(window=(0, end), writers=[], probes=[], cons=[], mirrors=[], records=[], replays=[], towins=[], runs=1)
    wid = 1
    for _ in range(rng.randint(1, 3)):
        script = {}
        t = rng.choice((0, 0, 1, 3))
        v = rng.randint(1, 50)
        while t < end:
            gaps = rng.choice(((1,), (1, 1, 2), (3, 4, 5), (5, 6, 7, 8), (1, 2, 9)))
            for _ in range(rng.randint(1, 8)):
                if t >= end:
                    break
                script[t] = [["d", str(v)]] if rng.random() < 0.9 else [["d", str(v + 500)], ["d", str(v)]]
                v += 1
                t += rng.choice(gaps)
        src = wid
        sc["writers"].append(dict(id=src, shape="TS", typed=0, script=script))
        wid += 1
        reset = None
        if rng.random() < 0.4:
            rs = {}
            for _ in range(rng.randint(1, 4)):
                rt = rng.choice(sorted(script)) if rng.random() < 0.5 else rng.randrange(end)
                rs[rt] = [["d", "true"]]
            reset = wid
            sc["writers"].append(dict(id=reset, shape="SIGNAL", typed=0, script=rs))
            wid += 1
        for _ in range(rng.choice((1, 1, 2))):
            kind = rng.choice(("dur", "dur", "tick"))
            if kind == "dur":
                period = rng.choice((2, 3, 5, 10, 20))
                mn = rng.choice((0, 1, period, max(1, period // 2)))
            else:
                period = rng.choice((1, 2, 3, 5, 8))
                mn = rng.choice((0, 1, period, max(1, period // 2)))
            tw = dict(id=wid, src=src, kind=kind, period=period, min=mn, reset=reset if reset and rng.random() < 0.8 else None)
            sc["towins"].append(tw)
            sc["cons"].append(dict(id=wid * 10 + 2, src=wid, every=1))
            if rng.random() < 0.5:
                sc["probes"].append(dict(id=wid * 10 + 1, src=wid, until=end - 1))
            wid += 1
    return sc


def emit(sc):
    lines = ["mode collections", "window %d %d" % tuple(sc["window"])]
    if sc.get("runs", 1) > 1:
        lines.append("runs %d" % sc["runs"])
    for w in sc["writers"]:
        lines.append("writer %d shape=%s typed=%d%s" % (w["id"], w["shape"], w.get("typed", 0), " run=%d" % w["run"] if "run" in w else ""))
        groups = []
        for off in sorted(w["script"], key=int):
            ops = w["script"][off]
            groups.append("|".join([str(off)] + [(o[0] + ("=" + o[1] if o[1] != "" else "")) for o in ops]))
        lines.append("wscript %d %s" % (w["id"], ";;".join(groups)))
    for r in sc.get("replays", []):
        lines.append("replay %d shape=%s key=%s run=%d" % (r["id"], r["shape"], r["key"], r["run"]))
    for tw in sc.get("towins", []):
        lines.append("towin %d %d kind=%s period=%d min=%d%s" % (tw["id"], tw["src"], tw["kind"], tw["period"], tw["min"],
                                                              " reset=%d" % tw["reset"] if tw.get("reset") else ""))
    for m in sc.get("mirrors", []):
        lines.append("mirror %d %d%s" % (m["id"], m["src"], " run=%d" % m["run"] if "run" in m else ""))
    for p in sc.get("probes", []):
        lines.append("probe %d %d until=%d%s" % (p["id"], p["src"], p["until"], " run=%d" % p["run"] if "run" in p else ""))
    for c in sc.get("cons", []):
        lines.append("cons %d %d every=%d%s" % (c["id"], c["src"], c.get("every", 1), " run=%d" % c["run"] if "run" in c else ""))
    for r in sc.get("records", []):
        lines.append("record %s %d run=%d" % (r["key"], r["src"], r.get("run", 0)))
    if sc.get("window2"):
        lines.append("window2 %d %d" % tuple(sc["window2"]))
    for r in sc.get("sreplays", []):
        lines.append("sreplay %d shape=%s key=%s rid=%s run=%d" % (r["id"], r["shape"], r["key"], r["rid"], r["run"]))
    for c in sc.get("scons", []):
        lines.append("cons %d %d every=1 run=%d" % (c["id"], c["src"], c["run"]))
    for r in sc.get("srecords", []):
        lines.append("srecord %s %d rid=%s run=%d" % (r["key"], r["src"], r["rid"], r.get("run", 0)))
    return "\n".join(lines) + "\n"


def normalise(sc):
    q = copy.deepcopy(sc)
    for w in q["writers"]:
        w["script"] = {int(k): [list(o) for o in v] for k, v in w["script"].items()}
    q["window"] = tuple(q["window"])
    return q


def shrink(sc):
    for key in ("cons", "probes", "mirrors", "records", "replays"):
        for i in range(len(sc.get(key, []))):
            q = copy.deepcopy(sc)
            del q[key][i]
            yield q
    for i, w in enumerate(sc["writers"]):
        q = copy.deepcopy(sc)
        wid = w["id"]
        del q["writers"][i]
        mids = {m["id"] for m in q.get("mirrors", []) if m["src"] == wid}
        q["mirrors"] = [m for m in q.get("mirrors", []) if m["src"] != wid]
        dead = mids | {wid}
        tws = {t["id"] for t in q.get("towins", []) if t["src"] == wid}
        q["towins"] = [dict(t, reset=None if t.get("reset") == wid else t.get("reset")) for t in q.get("towins", []) if t["src"] != wid]
        dead |= tws
        for key in ("cons", "probes", "records"):
            q[key] = [x for x in q.get(key, []) if x["src"] not in dead]
        if q["writers"]:
            yield q
    for i, t in enumerate(sc.get("towins", [])):
        q = copy.deepcopy(sc)
        del q["towins"][i]
        for key in ("cons", "probes"):
            q[key] = [x for x in q.get(key, []) if x["src"] != t["id"]]
        yield q
    for i, w in enumerate(sc["writers"]):
        for off in sorted(w["script"]):
            q = copy.deepcopy(sc)
            del q["writers"][i]["script"][off]
            yield q
            for j in range(len(w["script"][off])):
                if len(w["script"][off]) > 1:
                    q = copy.deepcopy(sc)
                    del q["writers"][i]["script"][off][j]
                    yield q
