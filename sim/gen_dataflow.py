"""Seeded generator of dataflow programs (see dataflow.py for the representation)."""
import random

from dataflow import SUBGRAPHS


def gen_script(rng, end, n=None, dense=False):
    n = n if n is not None else rng.randint(1, 6)
    times = set()
    t = rng.randint(0, 3)
    for _ in range(n):
        times.add(t)
        t += 1 if (dense or rng.random() < 0.4) else rng.randint(1, max(2, end // 4))
    return {o: rng.randint(0, 60) for o in times}


def gen_tscript(rng, no_cancel=True, in_start=True):
    """scheduler script for a timer node: k -> ops"""
    ts = {}
    kmax = rng.randint(1, 5)
    for k in range(0, kmax + 1):
        if k == 0 and not in_start:
            continue
        ops = []
        for _ in range(rng.choice((0, 1, 1, 2, 3))):
            r = rng.random()
            if r < 0.70:
                ops.append("+%d" % rng.choice((1, 1, 2, 3, 5, 9, 0, -1) if k else (0, 0, 1, 2, 4, -1)))
            else:
                ops.append("@%d" % rng.randint(0, 25))
        ts[k] = ops
    if in_start and not any(ts.get(0, [])):
        ts[0] = ["+0"] if rng.random() < 0.6 else ["+%d" % rng.randint(0, 3)]
    return ts


class Gen:
    def __init__(self, rng, size=None, allow=None):
        self.rng = rng
        self.nodes = []
        self.sinks = []
        self.binds = []
        self.scripts = {}
        self.tscripts = {}
        self.ports = []          # names of value ports available as inputs
        self.next_id = 1
        self.next_sg = 1000
        self.allow = allow or {}
        self.end = rng.choice((8, 12, 20, 30, 60))
        self.start = rng.choice((0, 0, 0, 1, 2, 5))
        self.end += self.start
        self.size = size if size is not None else rng.randint(2, 30)
        self.open_fb = []

    def nid(self):
        i = self.next_id
        self.next_id += 1
        return i

    def name(self):
        return "n%d" % (len(self.nodes) + 1)

    def add(self, n, is_port=True):
        self.nodes.append(n)
        if is_port:
            self.ports.append(n["name"])
        return n["name"]

    def pick(self, k=1, allow_passive=True):
        rng = self.rng
        # bias towards recent ports for depth, sometimes any for fan-out / diamonds
        out = []
        for _ in range(k):
            if rng.random() < 0.5 and len(self.ports) > 3:
                out.append(rng.choice(self.ports[-4:]))
            else:
                out.append(rng.choice(self.ports))
        return out

    def pass_base(self, port):
        n = [x for x in self.nodes if x["name"] == port][0]
        if n.get("g") == "SgPass":
            return self.pass_base(n["args"][0].lstrip("~"))
        return port

    def is_ref(self, port):
        n = [x for x in self.nodes if x["name"] == port][0]
        if n["kind"] == "ite":
            return True
        if n.get("g") == "SgPass":
            return self.is_ref(n["args"][0].lstrip("~"))
        if n["kind"] in ("feedback", "delayed"):
            return False
        return False

    def add_source(self):
        rng = self.rng
        r = rng.random()
        if r < 0.6 or not self.allow.get("ticker", True):
            i = self.nid()
            self.scripts[i] = gen_script(rng, self.end, dense=rng.random() < 0.2)
            return self.add(dict(name=self.name(), kind="source", args=[], id=i))
        if r < 0.8:
            return self.add(dict(name=self.name(), kind="ticker", args=[], count=rng.randint(1, 5), period=rng.choice((1, 1, 2, 3, 7)), id=self.nid()))
        if r < 0.9 and self.allow.get("const", True):
            n = dict(name=self.name(), kind="const", args=[], value=rng.randint(0, 50), id=0)
            if rng.random() < 0.4:
                n["delay"] = rng.randint(1, 6)
            return self.add(n)
        i = self.nid()
        self.tscripts[i] = gen_tscript(rng)
        return self.add(dict(name=self.name(), kind="timer0", args=[], id=i))

    def mark_passive(self, args):
        rng = self.rng
        if len(args) >= 2 and rng.random() < 0.35:
            j = rng.randrange(len(args))
            args = [("~" + a if (idx == j or (rng.random() < 0.2 and idx != (j + 1) % len(args))) else a) for idx, a in enumerate(args)]
            if all(a.startswith("~") for a in args):
                args[0] = args[0][1:]
        return args

    def add_compute(self):
        rng = self.rng
        r = rng.random()
        allow = self.allow
        if r < 0.55:
            ar = rng.choice((1, 2, 2, 2, 3))
            args = self.mark_passive(self.pick(ar))
            valid = "".join(rng.choice("VVVU") for _ in range(ar))
            return self.add(dict(name=self.name(), kind="c%d" % ar, args=args, valid=valid, op=rng.choice((0, 0, 0, 1, 2)), id=self.nid()))
        if allow.get("sshot") and r < 0.60 and rng.random() < 0.2:
            # a node with an active input that asks for one wake-up in start() through the stateless SingleShotScheduler
            return self.add(dict(name=self.name(), kind="sshot", args=self.pick(1), at=rng.randint(self.start + 1, self.start + 12), id=self.nid()))
        if allow.get("lift") and r < 0.60 and getattr(self, "n_lift", 0) < 4 and rng.random() < 0.5:
            # a scalar function lifted with lift<F>() (its own evaluator, values only); at most four per program (slot table)
            k = getattr(self, "n_lift", 0)
            self.n_lift = k + 1
            args = [a.lstrip("~") for a in self.pick(2)]
            return self.add(dict(name=self.name(), kind="lift2", args=args, k=k, id=self.nid()))
        if r < 0.60:
            return self.add(dict(name=self.name(), kind="accum", args=self.pick(1), id=self.nid()))
        if r < 0.63:
            return self.add(dict(name=self.name(), kind="conv", args=self.pick(1), ty=rng.choice("IF"), id=self.nid()))
        if r < 0.68:
            if rng.random() < 0.5:
                args = self.pick(2)
                if rng.random() < 0.4:
                    args[1] = "~" + args[1]           # redundant mark on the compile-time passive input
                return self.add(dict(name=self.name(), kind="sample", args=args, id=self.nid()))
            args = self.pick(3)
            m = rng.random()
            if m < 0.45:
                args[1] = "~" + args[1]               # redundant mark on the compile-time passive input
            if 0.3 < m < 0.6:
                j = rng.choice((0, 2))
                args[j] = "~" + args[j]               # and/or one of the two active neighbours made passive
            return self.add(dict(name=self.name(), kind="samplemid", args=args, id=self.nid()))
        if r < 0.74 and allow.get("timer1", True):
            i = self.nid()
            self.tscripts[i] = gen_tscript(rng, in_start=rng.random() < 0.5)
            # (a quarter of them read their only input passively: no active input at all, driven by their own schedule alone)
            return self.add(dict(name=self.name(), kind="timer1p" if allow.get("timer1p") and rng.random() < 0.3 else "timer1", args=[a.lstrip("~") for a in self.pick(1)], id=i))
        if r < 0.80 and allow.get("struct", True):
            if rng.random() < 0.5:
                ar = rng.choice((2, 3))
                return self.add(dict(name=self.name(), kind="suml", args=self.pick(ar), all=rng.choice((0, 1)), id=self.nid()))
            return self.add(dict(name=self.name(), kind="sumb", args=self.pick(2), all=rng.choice((0, 1)), id=self.nid()))
        if r < 0.86 and allow.get("ite", True):
            # the condition may be anything; the two targets are plain (non reference-shaped) ports: references to
            # references are explored by C13's own generator, not here
            plain = [p for p in self.ports if not self.is_ref(p)]
            if len(plain) >= 1:
                c = self.pick(1)[0]
                ta, tb = self.rng.choice(plain), self.rng.choice(plain)
                # references observe endpoint identity: a port and a *nested* pass-through of the same port are two different
                # references to the same data (inlined, they are one port). That difference belongs to nobody's statement
                # (seen once in a 24 000-run soak of C03): such a pair is not used as the two targets of one selection.
                if ta != tb and self.pass_base(ta) == self.pass_base(tb):
                    tb = ta
                return self.add(dict(name=self.name(), kind="ite", args=[c, ta, tb], id=self.nid()))
        if allow.get("ctx") and r < 0.96 and rng.random() < 0.25:
            # a port offered as wiring context, and a sub-graph that imports it next to its declared input
            plain = [p for p in self.ports if not self.is_ref(p)]
            if plain:
                if getattr(self, "ctx_name", None) is None:
                    self.ctx_name = self.add(dict(name=self.name(), kind="ctxscope", args=[rng.choice(plain)], id=0), is_port=False)
                how = rng.choice(allow.get("how", ("inline", "nested")))
                i = self.next_sg
                self.next_sg += 1
                return self.add(dict(name=self.name(), kind=how, g="SgCtx", args=[rng.choice(plain), self.ctx_name], p=rng.randint(1, 4), q=1, id=i))
        if r < 0.96 and allow.get("sub", True):
            g = rng.choice([s for s in SUBGRAPHS if s != "SgFail"])
            how = rng.choice(allow.get("how", ("inline", "nested", "nested", "nested2", "nested3")))
            i = self.next_sg
            self.next_sg += 1
            p, q = rng.randint(1, 4), rng.choice((1, 1, 2, 3))
            if g == "SgSrc":
                self.scripts[i * 10 + 1] = gen_script(rng, self.end)
            if g in ("SgSched", "SgSchedV"):
                self.tscripts[i * 10 + 1] = gen_tscript(rng, in_start=rng.random() < 0.6)
            if g == "SgDeep":
                pass
            arg = self.pick(1)
            if how != "inline" and self.is_ref(arg[0].lstrip("~")) and not allow.get("nested_over_ref", False):
                # a reference crossing a nested boundary is C13/C09 territory (known finding F3); keep it out of the others
                how = "inline"
            return self.add(dict(name=self.name(), kind=how, g=g, args=arg, p=p, q=q, id=i))
        if allow.get("feedback", True) and len(self.open_fb) < 2:
            n = dict(name=self.name(), kind="feedback", id=0)
            if rng.random() < 0.6:
                n["init"] = rng.randint(0, 9)
            self.add(n)
            self.open_fb.append(n["name"])
            return n["name"]
        return self.add_compute()

    def build(self):
        rng = self.rng
        for _ in range(rng.randint(1, 4)):
            self.add_source()
        while len(self.nodes) < self.size:
            if rng.random() < 0.12:
                self.add_source()
            else:
                self.add_compute()
        # close feedback loops: bind to a port wired after the handle that (for variety) may or may not depend on it
        for fb in self.open_fb:
            idx = [i for i, n in enumerate(self.nodes) if n["name"] == fb][0]
            later = [n["name"] for n in self.nodes[idx + 1:] if n["kind"] not in ("feedback", "delayed")]
            if not later:
                later = [self.add(dict(name=self.name(), kind="c1", args=[fb], valid="V", op=0, id=self.nid()))]
            self.binds.append((fb, rng.choice(later)))
        # sinks: record most ports
        rid = 500
        for p in self.ports:
            kind = [n for n in self.nodes if n["name"] == p][0]["kind"]
            if rng.random() < 0.7:
                rid += 1
                self.sinks.append(dict(kind="rec" if rng.random() < 0.8 else "recu", id=rid, port=p))
        if not self.sinks:
            self.sinks.append(dict(kind="rec", id=501, port=self.ports[-1]))
        return dict(nodes=self.nodes, sinks=self.sinks, binds=self.binds, scripts=self.scripts, tscripts=self.tscripts,
                    window=(self.start, self.end), faults=[], options={})


def gen_program(seed, size=None, allow=None):
    rng = random.Random(seed)
    return Gen(rng, size=size, allow=allow).build()


def random_order(prog, rng):
    """a random admissible permutation of the wiring statements (a statement may appear once its input ports exist)"""
    import dataflow
    deps = dataflow.stmt_deps(prog)
    n = len(deps)
    done = set()
    order = []
    remaining = set(range(n))
    while remaining:
        ready = sorted(i for i in remaining if deps[i] <= done)
        if not ready:
            raise ValueError("statement dependencies are cyclic")
        # bias: sometimes strictly reversed-ready, sometimes random
        i = rng.choice(ready) if rng.random() < 0.8 else ready[-1]
        order.append(i)
        done.add(i)
        remaining.discard(i)
    return order


def add_delayed(prog, rng, count=1):
    """wire some consumers before their producers through delayed_binding (construction order only)"""
    for _ in range(count):
        cands = []
        names = {n["name"]: n for n in prog["nodes"]}
        for n in prog["nodes"]:
            if n["kind"] in ("feedback", "delayed"):
                continue
            for j, a in enumerate(n.get("args", [])):
                b = a.lstrip("~")
                if names[b]["kind"] not in ("feedback", "delayed", "ctxscope") and n["kind"] != "ctxscope":
                    cands.append((n, j))
        if not cands:
            return prog
        n, j = rng.choice(cands)
        a = n["args"][j]
        d = "d%d" % (sum(1 for x in prog["nodes"] if x["kind"] == "delayed") + 1)
        prog["nodes"].insert(0, dict(name=d, kind="delayed", id=0))
        n["args"][j] = ("~" if a.startswith("~") else "") + d
        prog.setdefault("binds", []).append((d, a.lstrip("~")))
    return prog


def make_cyclic(prog, rng):
    """close a dependency cycle through delayed_binding (no feedback): must be rejected when the graph is built"""
    names = {n["name"]: n for n in prog["nodes"]}
    chains = []
    for b in prog["nodes"]:
        if b["kind"] in ("feedback", "delayed") or not b.get("args"):
            continue
        for a_name in b["args"]:
            a = names[a_name.lstrip("~")]
            if a["kind"] in ("feedback", "delayed", "ite") or not a.get("args"):
                continue
            if names[a["args"][0].lstrip("~")]["kind"] in ("feedback", "delayed"):
                continue
            chains.append((a, b))
    if not chains:
        return None
    a, b = rng.choice(chains)
    d = "dz"
    prog["nodes"].insert(0, dict(name=d, kind="delayed", id=0))
    a["args"][0] = d            # A now reads (through the placeholder) ...
    prog.setdefault("binds", []).append((d, b["name"]))   # ... B, which reads A
    return prog
