"""C10 - map_ runs one isolated instance per key and mirrors the key set."""
import copy
import json
import random

import coll
import ho
import runner
from framework import Outcome

FUNCS = ("AddOne", "Accum", "AddKey", "TickAfter", "FailOn", "Add2", "Chain", "PulseFail", "TickAdd2")
FAILING = ("FailOn", "PulseFail")


def map_model(sc, fspec, end):
    """reference: per-key solo instances over the element histories. Returns per cycle the expected output dict and
    the set of cycles in which the output ticks, plus per-key error ticks"""
    w = {x["id"]: x for x in sc["writers"]}
    h1 = ho.tsd_history(w[fspec["d"]])
    h2 = ho.tsd_history(w[fspec["d2"]]) if fspec.get("d2") else None
    hb = dict(ho.ts_history(w[fspec["b"]])) if fspec.get("b") else None
    f = fspec["fn"]
    inst = {}
    out = {}
    expected = {}
    errors = {}
    bval = None
    state1, state2 = {}, {}
    times = set(h1) | (set(h2) if h2 else set()) | (set(hb) if hb else set())
    t = 0
    starts = stops = 0
    while t < end:
        due = [k for k, m in inst.items() if m.pending() == t]
        if t in times or due:
            c1 = h1.get(t, dict(removed=set(), ticked={}, state=state1))
            c2 = h2.get(t, dict(removed=set(), ticked={}, state=state2)) if h2 is not None else None
            state1 = c1["state"]
            if c2 is not None:
                state2 = c2["state"]
            btick = hb.get(t) if hb is not None else None
            if btick is not None:
                bval = btick
            keys = set(state1) | (set(state2) if h2 is not None else set())
            ticked_any = False
            for k in list(inst):
                if k not in keys:
                    del inst[k]
                    stops += 1
                    if k in out:
                        del out[k]
                        ticked_any = True
            for k in sorted(keys):
                first = k not in inst
                if first:
                    inst[k] = ho.FnModel(f, key=k)
                    starts += 1
                    if hb is not None and bval is not None:
                        inst[k].b = bval          # a broadcast input is sampled by a new child
                m = inst[k]
                xt = c1["ticked"].get(k)
                if first and xt is None and k in state1:
                    xt = state1[k]
                if h2 is not None:
                    bt = c2["ticked"].get(k)
                    if first and bt is None and k in state2:
                        bt = state2[k]
                    if k not in state2:
                        m.b = None        # the element left this dictionary: the child's input is no longer valid
                        bt = None
                else:
                    bt = btick
                    if first and bt is None and bval is not None:
                        bt = bval
                if k not in state1:
                    xt = None
                    m.x = None
                ticked, err = m.cycle(t, xt, bt, first=first)
                if err:
                    errors.setdefault(t, {})[k] = err
                if ticked:
                    out[k] = m.out
                    ticked_any = True
            expected[t] = (dict(out), ticked_any)
        t += 1
    return expected, errors, starts, stops


class C10:
    id = "C10"
    level = "exploration"
    quick_runs = 1200
    quick_budget_s = 150
    thorough_budget_s = 900
    san = False
    rule = ("map_(fn<F>, tsd[, tsd2 | broadcast]) with F in {AddOne (stateless), Accum (stateful), Chain (two nodes, stateful), AddKey (key-consuming), "
            "TickAfter (self-scheduling: re-emits two steps after each input), FailOn (throws on a magic element; per-key capture through "
            "exception_time_series), Add2 (second multiplexed dictionary with a differing key set, or a broadcast argument)}; seeded key histories: add, "
            "update, remove, re-add in a later cycle, many keys per cycle, key pools of 5 and 80 (slot reuse and growth over 8/16/32/64). Oracle: the "
            "output dictionary after every tick equals the key-set model - keys of the (union) key set whose child output is valid - with, per key, the "
            "value F produces when run alone on that key's element stream since the key (re)appeared (fresh state after re-add); an error is reported "
            "under the failing key only and at the throwing cycle; child start/stop hooks pair with key add/remove. non-trivial = >= 1 key removed and "
            ">= 3 output ticks; distinct = distinct (F, histories)"
            " Round 3: TickAdd2 (self-scheduling node on the first argument combined with a second dictionary whose keys are a changing subset of the first s); histories with 65-140 live keys.")
    assumptions = ["removal and re-insertion of one key inside a single cycle is not generated here (known finding F6 concerns that path)",
                   "the per-key solo reference is the Python model of the library function (sim/ho.py FnModel), not a second engine run"]

    def gen(self, seed, funcs=FUNCS):
        rng = random.Random(seed)
        end = rng.choice((10, 16, 24))
        f = rng.choice(funcs)
        big = rng.random() < 0.12
        writers = [ho.gen_tsd_writer(rng, 1, end, pool=rng.choice((3, 5, 8)), magic=666 if f in FAILING else None, big=big)]
        spec = dict(fn=f, d=1)
        stmt = "map 10 fn=%s d=1" % f
        if f == "Add2":
            if rng.random() < 0.5:
                writers.append(ho.gen_tsd_writer(rng, 2, end, pool=rng.choice((3, 5, 8))))
                spec["d2"] = 2
                stmt += " d2=2"
            else:
                writers.append(ho.gen_ts_writer(rng, 3, end))
                spec["b"] = 3
                stmt += " b=3"
        if f == "TickAdd2":
            writers.append(ho.gen_tsd_subset_writer(rng, 2, end, writers[0]))
            spec["d2"] = 2
            stmt += " d2=2"
        stmts = [stmt, "cons 11 10"]
        if f in FAILING:
            stmts.append("maperr 12 10")
        return dict(sc=dict(window=(0, end), writers=writers, stmts=stmts), spec=spec)

    def run(self, case, fresh=False):
        sc = ho.normalise(case["sc"])
        text = ho.emit(sc)
        res = runner.run_fresh(text, san=self.san) if fresh else runner.run(text, san=self.san)
        if not res.ok:
            if res.timeout:
                return Outcome(harness_error="timeout", sample=text)
            return Outcome(violation=dict(clause="crash", detail="harness status=%s signal=%s tail=%s" % (res.status, res.signal, res.raw[-300:])), digest=res.digest, sample=dict(scenario=text))
        for e in res.events:
            if e["k"] in ("wire_error", "harness_error"):
                return Outcome(harness_error="%s: %s" % (e["k"], e.get("what")), sample=text)
        sample = dict(scenario=text, log_head=res.raw[:800])
        ran = [e for e in res.events if e["k"] == "ran"]
        if not ran or ran[0]["run"] != "ok":
            return Outcome(violation=dict(clause="run_threw", detail=ran[0].get("what", "")[:400] if ran else "no ran event"), digest=res.digest, sample=sample)
        spec = case["spec"]
        ids = {w["id"] for w in sc["writers"]}
        if spec["d"] not in ids or (spec.get("d2") and spec["d2"] not in ids) or (spec.get("b") and spec["b"] not in ids):
            return Outcome(stats={}, digest=res.digest, nontrivial=False, sample=sample)
        end = sc["window"][1]
        expected, errors, starts, stops = map_model(sc, spec, end)
        got = {}
        for e in res.events:
            if e["k"] == "C" and e["id"] == 11 and e["i"] is not None:
                got[e["t"]] = e["i"]
        v = None
        stats = dict(output_ticks=len(got), keys_removed=0, probe_readd_after_removal=0, probe_big_key_set=0, error_ticks=0, child_graph_instances=0,
                     faults_fired={"F1_child_eval": sum(len(x) for x in errors.values())})
        last = {}
        for t in sorted(set(expected) | set(got)):
            exp = expected.get(t)
            g = got.get(t)
            if exp is not None:
                if len(exp[0]) > 8:
                    stats["probe_big_key_set"] += 1
            if g is None:
                if exp is not None and exp[1] and exp[0] != last:
                    v = ("output_missing_tick", "t=%d the model's output changes to %s but the map output did not tick (last read %s)" % (t, exp[0], last))
                    break
                continue
            val = {int(k): x for k, x in (g["val"] or {}).items() if (g.get("ch") or {}).get(k, {}).get("v", 1)}
            want = exp[0] if exp is not None else last
            if val != want:
                v = ("output_value", "t=%d map output reads %s; per-key solo reference gives %s (function %s)" % (t, val, want, spec["fn"]))
                break
            removed = {int(k) for k in g.get("removed", [])}
            stats["keys_removed"] += len(removed)
            last = val
        if not v and spec["fn"] in FAILING:
            seen = {}
            for e in res.events:
                if e["k"] == "errs":
                    for k, msg in e["mod"].items():
                        seen.setdefault(e["t"], {})[int(k)] = msg
            stats["error_ticks"] = sum(len(x) for x in seen.values())
            for t in sorted(set(errors) | set(seen)):
                if {k: m for k, m in errors.get(t, {}).items()} != {k: m for k, m in seen.get(t, {}).items() if m != "<invalid>"}:
                    v = ("error_under_wrong_key", "t=%d errors expected under keys %s, reported %s" % (t, errors.get(t, {}), seen.get(t, {})))
                    break
        # child lifecycle: every started child stopped, one start per key appearance
        h_start = sum(1 for e in res.events if e["k"] == "h" and e["e"] == "start")
        h_stop = sum(1 for e in res.events if e["k"] == "h" and e["e"] == "stop")
        stats["child_graph_instances"] = sum(1 for e in res.events if e["k"] == "gstart" and e["g"] > 0)
        if not v and spec["fn"] in ("Accum", "FailOn", "Chain", "PulseFail"):
            if h_start != starts:
                v = ("child_starts", "%d children started, %d key appearances in the model" % (h_start, starts))
            elif h_stop != h_start:
                v = ("child_not_stopped", "%d children started but %d stopped" % (h_start, h_stop))
        stats["simulated_time_us"] = end
        return Outcome(violation=dict(clause=v[0], detail=v[1]) if v else None, stats=stats, digest=res.digest,
                       nontrivial=stops >= 1 and len(got) >= 3, sample=sample, shape=runner.h64(text))

    def shrink(self, case):
        sc = ho.normalise(case["sc"])
        for i, w in enumerate(sc["writers"]):
            for off in sorted(w["script"]):
                if len(w["script"]) > 1:
                    q = copy.deepcopy(sc)
                    del q["writers"][i]["script"][off]
                    yield dict(case, sc=q)
        for i, w in enumerate(sc["writers"]):
            if w["shape"] != "TSD":
                continue
            for off in sorted(w["script"]):
                d = json.loads(w["script"][off][0][1])
                for k in list(d.get("modified", {})):
                    q = copy.deepcopy(sc)
                    dd = copy.deepcopy(d)
                    del dd["modified"][k]
                    q["writers"][i]["script"][off] = [["d", coll.jd(dd)]]
                    yield dict(case, sc=q)
                for k in list(d.get("removed", [])):
                    q = copy.deepcopy(sc)
                    dd = copy.deepcopy(d)
                    dd["removed"].remove(k)
                    q["writers"][i]["script"][off] = [["d", coll.jd(dd)]]
                    yield dict(case, sc=q)


PROPERTY = C10()
