"""C14: lifecycle-history invariants over the observer stream."""

NOT_STARTED, STARTING, STARTED, START_FAILED, STOPPING, STOPPED = range(6)
NAMES = ["not_started", "starting", "started", "start_failed", "stopping", "stopped"]


def check_lifecycle(events, cleanup_on_error=True):
    """returns (violation or None, info) - info: fired faults with their root owner index, run result"""
    state = {}          # (g, i) -> state
    graph_nodes = {}    # g -> node count
    parent = {}         # g -> (pg, pi)
    graph_state = {}    # g -> 'starting'|'started'|'start_failed'|'stopping'|'stopped'
    stack = []          # open node brackets (phase, g, i)
    fired = []          # (id, phase, occ, root_owner_index, inside_root_phase)
    ran = None
    fired_in_run = []
    n_events = 0
    checkpoint_done = False

    def owner(g, i):
        while g != 0:
            if g not in parent:
                return None
            g, i = parent[g]
        return i

    def checkpoint(where):
        for (g, i), st in state.items():
            if st in (STARTING, STARTED, STOPPING):
                return ("node_not_stopped", "node (%d,%d) is still %s at %s" % (g, i, NAMES[st], where))
        for g, st in graph_state.items():
            if st in ("starting", "started", "stopping"):
                return ("graph_not_stopped", "graph instance %d is still %s at %s" % (g, st, where))
        return None

    for e in events:
        k = e["k"]
        if k == "gstart":
            g = e["g"]
            graph_nodes[g] = e["n"]
            parent[g] = (e["pg"], e["pi"])
            continue
        if k == "life":
            n_events += 1
            ev = e["e"]
            g = e["g"]
            if ev.endswith("_graph") or ev.endswith("graph_failed"):
                cur = graph_state.get(g)
                if ev == "before_start_graph":
                    if cur is not None:
                        return ("graph_started_twice", "graph %d: before_start_graph in state %s" % (g, cur)), None
                    graph_state[g] = "starting"
                elif ev == "after_start_graph":
                    if cur != "starting":
                        return ("observer_pairing", "graph %d: after_start_graph in state %s" % (g, cur)), None
                    graph_state[g] = "started"
                elif ev == "start_graph_failed":
                    if cur != "starting":
                        return ("observer_pairing", "graph %d: start_graph_failed in state %s" % (g, cur)), None
                    # a failed graph start must have stopped exactly the nodes already started
                    for (gg, i), st in state.items():
                        if gg == g and st in (STARTED, STARTING, STOPPING):
                            return ("failed_start_rollback", "graph %d start failed but node %d is %s" % (g, i, NAMES[st])), None
                    graph_state[g] = "start_failed"
                elif ev == "before_stop_graph":
                    if cur != "started":
                        return ("graph_stop_without_start", "graph %d: before_stop_graph in state %s" % (g, cur)), None
                    graph_state[g] = "stopping"
                elif ev == "stop_graph_failed":
                    if cur != "stopping":
                        return ("observer_pairing", "graph %d: stop_graph_failed in state %s" % (g, cur)), None
                elif ev == "after_stop_graph":
                    if cur != "stopping":
                        return ("observer_pairing", "graph %d: after_stop_graph in state %s" % (g, cur)), None
                    for (gg, i), st in state.items():
                        if gg == g and st in (STARTED, STARTING, STOPPING):
                            return ("stop_incomplete", "graph %d stopped but node %d is %s: a failing stop must not prevent the remaining nodes from stopping" % (g, i, NAMES[st])), None
                    graph_state[g] = "stopped"
                continue
            i = e["i"]
            key = (g, i)
            st = state.get(key, NOT_STARTED)
            if ev == "before_start_node":
                if st != NOT_STARTED:
                    return ("node_started_twice", "node (%d,%d): start while %s" % (g, i, NAMES[st])), None
                expected = sum(1 for (gg, _), s in state.items() if gg == g)
                if i != expected:
                    return ("start_order", "graph %d: node %d started when %d was next in evaluation order" % (g, i, expected)), None
                if graph_state.get(g) != "starting":
                    return ("start_outside_graph_start", "node (%d,%d) started while graph is %s" % (g, i, graph_state.get(g))), None
                state[key] = STARTING
                stack.append(("start", g, i))
            elif ev == "after_start_node":
                if st != STARTING:
                    return ("observer_pairing", "node (%d,%d): after_start_node while %s" % (g, i, NAMES[st])), None
                state[key] = STARTED
                if stack and stack[-1] == ("start", g, i):
                    stack.pop()
            elif ev == "start_node_failed":
                if st != STARTING:
                    return ("observer_pairing", "node (%d,%d): start_node_failed while %s" % (g, i, NAMES[st])), None
                state[key] = START_FAILED
                if stack and stack[-1] == ("start", g, i):
                    stack.pop()
            elif ev == "before_stop_node":
                if st != STARTED:
                    return ("stop_of_unstarted_or_twice", "node (%d,%d): stop while %s (every started node is stopped exactly once)" % (g, i, NAMES[st])), None
                higher = [j for (gg, j), s in state.items() if gg == g and j > i and s in (STARTED, STARTING, STOPPING)]
                if higher:
                    return ("stop_order", "graph %d: node %d stopped while later node(s) %s are still started (reverse order)" % (g, i, higher)), None
                state[key] = STOPPING
                stack.append(("stop", g, i))
            elif ev == "stop_node_failed":
                if st != STOPPING:
                    return ("observer_pairing", "node (%d,%d): stop_node_failed while %s" % (g, i, NAMES[st])), None
            elif ev == "after_stop_node":
                if st != STOPPING:
                    return ("observer_pairing", "node (%d,%d): after_stop_node while %s" % (g, i, NAMES[st])), None
                state[key] = STOPPED
                if stack and stack[-1] == ("stop", g, i):
                    stack.pop()
            continue
        if k == "ne":
            key = (e["g"], e["i"])
            st = state.get(key, NOT_STARTED)
            if st != STARTED:
                return ("eval_outside_lifetime", "node (%d,%d) evaluated while %s (no evaluation before start completed or after stop began)" % (key[0], key[1], NAMES[st])), None
            stack.append(("eval", e["g"], e["i"]))
        elif k == "nx":
            if stack and stack[-1] == ("eval", e["g"], e["i"]):
                stack.pop()
        elif k == "fault":
            inner = stack[-1] if stack else None
            root_i = owner(inner[1], inner[2]) if inner else None
            root_phase = None
            for s in stack:
                if s[1] == 0:
                    root_phase = s[0]
                    break
            fired.append(dict(id=e["id"], phase=e["phase"], occ=e["occ"], root_owner=root_i, root_phase=root_phase,
                              text="injected fault id=%d phase=%s occ=%d" % (e["id"], e["phase"], e["occ"])))
        elif k == "ran":
            ran = e
            stack = []
            fired_in_run = list(fired)
            # the run has returned: with clean-up on error (or without an error) everything started must be stopped
            if cleanup_on_error or e["run"] == "ok":
                v = checkpoint("the return of run()")
                if v:
                    return v, None
                checkpoint_done = True
        elif k == "released":
            v = checkpoint("the release of the executor")
            if v:
                return v, None
            checkpoint_done = True
    if ran is None:
        return ("no_ran_event", "run() neither returned nor threw"), None
    # error identity
    # (a stop fault raised while the executor is being released, cleanup off, cannot reach the caller: only faults
    # fired before run() returned are considered)
    if fired_in_run:
        first = fired_in_run[0]
        if ran["run"] != "threw":
            return ("error_swallowed", "fault %s fired but run() returned normally" % first["text"]), None
        what = ran.get("what", "")
        if first["text"] not in what:
            return ("wrong_error", "first fault was '%s' but the caller received: %s" % (first["text"], what[:300])), None
        if first["root_owner"] is not None and ("node[%d " % first["root_owner"]) not in what:
            return ("error_not_named", "error does not name the failing root-level node %d: %s" % (first["root_owner"], what[:300])), None
    elif ran["run"] != "ok":
        return ("spurious_error", "no fault fired but run() threw: %s" % ran.get("what", "")[:300]), None
    return None, dict(fired=fired, lifecycle_events=n_events, graphs=len(graph_state), nodes=len(state))
