"""C03 - user code runs exactly when an active input ticked and required inputs are valid, on the right values."""
import random

import dataflow
import gen_dataflow
import oracle_dataflow
import runner
from framework import Outcome


class C03:
    id = "C03"
    level = "exploration"
    quick_runs = 1500
    quick_budget_s = 120
    thorough_budget_s = 900
    san = False
    rule = ("seeded dataflow programs (2-30 statements over sources, tickers, const, scheduler-scripted nodes, compute nodes of arity 1-3 with "
            "every Valid/Unchecked combination and wiring-time passive marks, compile-time passive sample node, stateful accumulators, "
            "structural TSL/TSB consumers with Valid/AllValid, if_then_else, feedback, inline and nested sub-graphs) x seeded tick scripts; "
            "each run compared evaluation by evaluation with the Python reference interpreter; non-trivial = the run contained at least one "
            "user-code evaluation of a compute node; distinct = distinct (program shape, tick pattern) digests"
            " Round 3: lift2 (a function lifted with lift<F>(), its own evaluator) and timer1p (a scheduler node whose only input is compile-time passive: no active input at all) are part of the vocabulary.")
    assumptions = ["the reference interpreter (sim/dataflow.py, appendix B of DESIGN.md) is the specification of the activation rule",
                   "scheduler cancellations are excluded here (C18 owns them)"]
    allow = dict(how=("inline", "nested"), lift=True, timer1p=True)

    def gen(self, seed):
        prog = gen_dataflow.gen_program(seed, allow=self.allow)
        return dict(prog=prog)

    def run(self, case, fresh=False):
        prog = dataflow.normalise(case["prog"])
        text = dataflow.emit(prog)
        res = runner.run_fresh(text, san=self.san) if fresh else runner.run(text, san=self.san)
        if not res.ok:
            return Outcome(harness_error="harness status=%s signal=%s timeout=%s tail=%s" % (res.status, res.signal, res.timeout, res.raw[-300:]), sample=text)
        for e in res.events:
            if e["k"] in ("wire_error", "harness_error"):
                return Outcome(harness_error="%s: %s" % (e["k"], e.get("what")), sample=text)
        ran = [e for e in res.events if e["k"] == "ran"]
        if not ran or ran[0]["run"] != "ok":
            return Outcome(violation=dict(clause="run_threw", detail=ran[0].get("what") if ran else "no ran event"), digest=res.digest, sample=text)
        v = oracle_dataflow.check_against_model(prog, res)
        n_ev = sum(1 for e in res.events if e["k"] == "ev" and e.get("in"))
        n_cyc = sum(1 for e in res.events if e["k"] == "cyc" and e["g"] == 0)
        stats = dict(evaluations_of_user_code=sum(1 for e in res.events if e["k"] == "ev"), cycles=n_cyc,
                     simulated_time_us=(prog["window"][1] - prog["window"][0]))
        stats.update(oracle_dataflow.probes(prog, res))
        shape = runner.h64(dataflow.shape_key(prog), [e["t"] for e in res.events if e["k"] == "cyc" and e["g"] == 0])
        return Outcome(violation=dict(clause=v[0], detail=v[1]) if v else None, stats=stats, digest=res.digest, nontrivial=n_ev > 0,
                       sample=dict(scenario=text, log_head=res.raw[:1500]) , shape=shape)

    def shrink(self, case):
        for q in dataflow.shrink_program(dataflow.normalise(case["prog"])):
            yield dict(prog=q)


PROPERTY = C03()
