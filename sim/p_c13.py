"""C13 - reading through a reference equals reading its current target."""
import copy
import json
import random

import coll
import ho
import oracle_coll as oc
import runner
from framework import Outcome

SHAPES = ("TS", "TSS", "TSD", "TSB")
F8 = "F8-stale-removed-elements-on-reference-retarget"
F11 = "F11-removed-items-empty-on-reference-retarget"
F13 = "F13-switch-reference-terminal-key-change-reports-no-removals"
F14 = "F14-switch-over-bundle-loses-value-on-key-change"
F15 = "F15-switch-direct-branch-drops-empty-delta-ticks"
F10 = "F10-nested-boundary-rebind-ticks-consumer-with-unchanged-value"
F21 = "F21-nested-pass-through-keeps-following-deselected-target-after-silent-retarget"
F22 = "F22-delta-value-omits-removals-when-retarget-coincides-with-target-tick"


def gen_target(rng, wid, shape, end):
    w = coll.gen_writer(rng, wid, shape, end)
    for off in w["script"]:
        w["script"][off] = [o for o in w["script"][off] if o[0] != "inv"] or [["d", coll.jd(coll.gen_delta(coll.SHAPES[shape], coll.fresh(coll.SHAPES[shape]), rng))]]
    return w


class C13:
    id = "C13"
    level = "exploration"
    quick_runs = 1500
    quick_budget_s = 150
    thorough_budget_s = 900
    san = False
    rule = ("two scripted targets A and B of one shape (TS<Int>, TSS<Int>, TSD<Int,TS<Int>>, TSB) and a scripted Bool selector feed if_then_else; the "
            "reference-shaped result is read by two consumers directly, by a consumer below a nested pass-through graph, and by a consumer of an "
            "if_then_else wired inside a nested graph, and (sets, dictionaries, scalars) by consumers of the same selection made by switch_ with branches that return their input directly or behind a reference-shaped terminal; timings: retarget to a target that ticked earlier / in the same cycle / never, retarget back, "
            "selector re-ticks that select the same target, ticks of the unselected target. Oracle (model of the documented sampled-rebind semantics): "
            "a consumer is evaluated at t iff the selected target ticked at t or the reference was retargeted at t to a valid target; when evaluated it "
            "reads the target's current value as modified; on a retarget the delta is the current value (TS/TSB) or, for sets and dictionaries, exactly "
            "the difference between what the consumer held before and the new contents (removed within its previous value, added outside it; previous view + delta_value() = value; every live dictionary entry sampled as modified; key views and item views of the delta agree); a "
            "republished unchanged reference causes no evaluation; ticks of unselected targets never reach the consumer. non-trivial = >= 2 retargets; "
            "distinct = distinct (shape, scripts)"
            " Round 3: in 15% of the runs the two targets are elements 0 and 1 of one TSL<TSB,2> output (a retarget keeps the owning output).")
    assumptions = ["retarget to a never-valid target: only 'reads invalid if evaluated' is asserted (scalar unbind is documented as silent)",
                   "whether a target ticked in a cycle is taken from the target writer's own output view; values from the Python container model"]

    def gen(self, seed):
        rng = random.Random(seed)
        end = rng.choice((10, 16, 24))
        if random.Random(seed ^ 0x5A11).random() < 0.15:
            # the two targets are two positions inside ONE producing output (elements 0 and 1 of a TSL<TSB,2> writer): a retarget
            # between them keeps the owning output and changes only the position
            lw = gen_target(rng, 5, "TSLB", end)
            c = ho.gen_ts_writer(rng, 3, end, values=[True, False], shape="TSBool", dense=rng.random() < 0.4)
            stmts = ["elem 1 5 idx=0", "elem 2 5 idx=1", "ite 10 c=3 a=1 b=2", "cons 11 10", "cons 12 10"]
            extra = rng.random()
            if extra < 0.4:
                stmts += ["npass 20 10", "cons 21 20"]
            elif extra < 0.7:
                stmts += ["nite 30 c=3 a=1 b=2", "cons 31 30"]
            return dict(sc=dict(window=(0, end), writers=[lw, c], stmts=stmts), shape="TSB", split=1)
        shape = rng.choice(SHAPES)
        a = gen_target(rng, 1, shape, end)
        b = gen_target(rng, 2, shape, end)
        c = ho.gen_ts_writer(rng, 3, end, values=[True, False], shape="TSBool", dense=rng.random() < 0.4)
        stmts = ["ite 10 c=3 a=1 b=2", "cons 11 10", "cons 12 10"]
        extra = rng.random()
        if extra < 0.4:
            stmts += ["npass 20 10", "cons 21 20"]
        elif extra < 0.7:
            stmts += ["nite 30 c=3 a=1 b=2", "cons 31 30"]
        if shape != "TSB" and random.Random(seed ^ 0x5E1).random() < 0.4:       # (bundles: known finding F14, demonstrated below)
            # the same selection made by switch_ (key = the selector): branches hand the input through directly / behind a
            # reference-shaped terminal
            stmts += ["swsel 40 c=3 a=1 b=2 br=direct", "cons 41 40", "swsel 45 c=3 a=1 b=2 br=ref", "cons 46 45"]
        return dict(sc=dict(window=(0, end), writers=[a, b, c], stmts=stmts), shape=shape)

    def run(self, case, fresh=False):
        sc = ho.normalise(case["sc"])
        text = ho.emit(sc)
        res = runner.run_fresh(text, san=self.san) if fresh else runner.run(text, san=self.san)
        if not res.ok:
            if res.timeout:
                return Outcome(harness_error="timeout", sample=text)
            return Outcome(violation=dict(clause="crash", detail="harness status=%s signal=%s tail=%s" % (res.status, res.signal, res.raw[-300:])), digest=res.digest, sample=dict(scenario=text))
        for e in res.events:
            if e["k"] in ("wire_error", "harness_error"):
                return Outcome(harness_error="%s: %s" % (e["k"], e.get("what")), sample=text)
        sample = dict(scenario=text, log_head=res.raw[:800])
        ran = [e for e in res.events if e["k"] == "ran"]
        if not ran or ran[0]["run"] != "ok":
            return Outcome(violation=dict(clause="run_threw", detail=ran[0].get("what", "")[:400] if ran else "no ran event"), digest=res.digest, sample=sample)
        ws = {w["id"]: w for w in sc["writers"]}
        split = bool(case.get("split")) and 5 in ws
        if split:
            # the two targets are elements 0 and 1 of writer 5: their histories are the projections of the list's deltas
            for i in (0, 1):
                scr = {}
                for t, ops in ws[5]["script"].items():
                    proj = [["d", coll.jd(json.loads(o[1])[str(i)])] for o in ops if o[0] == "d" and str(i) in json.loads(o[1])]
                    if proj:
                        scr[t] = proj
                ws[i + 1] = dict(id=i + 1, shape="TSB", script=scr)
        if not all(i in ws for i in (1, 2, 3)):
            return Outcome(stats={}, digest=res.digest, nontrivial=False, sample=sample)
        shape = coll.SHAPES[case["shape"]]
        end = sc["window"][1]
        log = oc.parse_run(res.events, -1)
        W, C = {}, {}
        for e in res.events:
            if e["k"] == "W":
                W.setdefault(e["id"], {})[e["t"]] = e["o"]
            elif e["k"] == "C":
                C.setdefault(e["id"], {})[e["t"]] = e["i"]
        tl = {i: oc.model_timeline(ws[i]) for i in (1, 2)}
        sel_hist = dict(ho.ts_history(ws[3]))

        def state_at(i, t):
            st = None
            for tt in sorted(tl[i]):
                if tt <= t:
                    st = tl[i][tt][1]
            return oc.model_norm(shape, st) if any(tt <= t for tt in tl[i]) else None

        def ticked(i, t):
            if split:
                return t in ws[i]["script"]      # an element ticks in exactly the cycles in which the list's delta names it
            o = W.get(i, {}).get(t)
            return bool(o and o["m"])

        consumers = [c for c in (11, 12, 21, 31, 41, 46) if any(s.startswith("cons %d" % c) for s in sc["stmts"])]
        stats = dict(retargets=0, consumer_evaluations=0, probe_retarget_to_valid=0, probe_retarget_to_never_valid=0, probe_same_target_republished=0,
                     probe_unselected_target_tick=0, probe_retarget_same_cycle_as_tick=0, simulated_time_us=end)
        v = None
        known = None
        known_detail = None
        cur = None
        prev_view = {c: None for c in consumers}
        for t in range(0, end):
            st = sel_hist.get(t)
            retarget = False
            old = cur
            if st is not None:
                new = 1 if st else 2
                if new != cur:
                    retarget = True
                    cur = new
                    stats["retargets"] += 1
                else:
                    stats["probe_same_target_republished"] += 1
            if cur is None:
                continue
            other = 2 if cur == 1 else 1
            if ticked(other, t) and not retarget:
                stats["probe_unselected_target_tick"] += 1
            val = state_at(cur, t)
            valid = val is not None and coll.is_valid(shape, val) if shape[0] not in ("TSS", "TSD") else val is not None
            if retarget:
                stats["probe_retarget_to_valid" if valid else "probe_retarget_to_never_valid"] += 1
                if ticked(cur, t):
                    stats["probe_retarget_same_cycle_as_tick"] += 1
            must = ticked(cur, t) or (retarget and valid)
            old_ticked = retarget and old is not None and ticked(old, t)
            for c in consumers:
                ci = C.get(c, {}).get(t)
                if ci is None:
                    if must:
                        # (the nested pass-through may miss a retarget back after a silent retarget: finding F3, owned by C09)
                        if c == 21 and retarget and not ticked(cur, t):
                            continue
                        if c == 41 and not retarget and shape[0] in ("TSS", "TSD") and (state_at(cur, t) or type(val)()) == ((state_at(cur, t - 1) if t >= 1 else None) or type(val)()) and val is not None:
                            # known finding F15: a direct branch return copies through pass_through_node; a tick whose
                            # structural delta is empty (cancelling mutations) has no effect in apply_delta, so the switch output
                            # does not tick (same mechanism as F5)
                            if not known:
                                known = F15
                                known_detail = "t=%d consumer %d (switch_, direct branch return) not evaluated: the selected target ticked with an empty delta" % (t, c)
                            continue
                        v = ("consumer_not_evaluated", "t=%d consumer %d not evaluated although %s" % (t, c, "the selected target ticked" if ticked(cur, t) else "the reference was retargeted to a valid target"))
                        break
                    continue
                stats["consumer_evaluations"] += 1
                if not must:
                    if retarget and not valid:
                        # retarget to a target that holds no value: the statement promises nothing beyond "reads invalid
                        # if evaluated" (the direct from-REF path is silent, a forwarding output that loses a valid target
                        # ticks once)
                        if ci["v"] and c in (41, 46) and shape[0] in ("TSS", "TSD") and not ci["val"]:
                            # switch_ keeps its own collection output and clears it on a key change: an *empty* set/dictionary
                            # where the new branch has produced nothing yet (the statement does not separate "no value" from
                            # "empty" for a target that holds none)
                            prev_view[c] = coll.fresh(shape) if False else (set() if shape[0] == "TSS" else {})
                            continue
                        if ci["v"]:
                            v = ("reads_valid_on_invalid_target", "t=%d consumer %d reads a value although the newly selected target holds none" % (t, c))
                            break
                        prev_view[c] = None
                        continue
                    if c == 21 and not valid and not retarget and ticked(other, t) and ci["v"] and oc.norm_value(shape, ci["val"], ci.get("ch")) == state_at(other, t):
                        # known finding F21 (the other face of F3): the reference was retargeted to a target that holds no value - a
                        # silent retarget at which the nested pass-through node is not evaluated - so its forwarding output still
                        # points at the de-selected target, whose ticks keep reaching the consumer below the nested boundary
                        if not known:
                            known = F21
                            known_detail = "t=%d consumer %d below the nested pass-through evaluated by a tick of the de-selected target (selected target holds no value)" % (t, c)
                        continue
                    if c in (21, 31) and ci["v"] and prev_view[c] is not None and oc.norm_value(shape, ci["val"], ci.get("ch")) == prev_view[c] and (
                            st is not None or ticked(1, t) or ticked(2, t)):
                        # below a nested boundary: the nested node was evaluated (one of its inputs ticked), re-bound its
                        # forwarding output and thereby ticked the consumer with an unchanged value
                        if not known:
                            known = F10
                            known_detail = "t=%d consumer %d below a nested boundary evaluated without cause, reading its previous value" % (t, c)
                        continue
                    v = ("consumer_evaluated_without_cause", "t=%d consumer %d evaluated (m=%d v=%d) but the selected target did not tick and no retarget to a valid target happened%s" % (
                        t, c, ci["m"], ci["v"], "; the unselected target ticked" if ticked(other, t) else ""))
                    break
                if not valid:
                    if ci["v"]:
                        v = ("reads_valid_on_invalid_target", "t=%d consumer %d reads a value although the target holds none" % (t, c))
                        break
                    continue
                got = oc.norm_value(shape, ci["val"], ci.get("ch")) if ci["v"] else None
                if got != val:
                    v = ("value_through_reference", "t=%d consumer %d reads %s through the reference; the target holds %s" % (t, c, ci["val"], val))
                    break
                if not ci["m"]:
                    v = ("not_modified_on_sample", "t=%d consumer %d evaluated but its input does not read modified" % (t, c))
                    break
                if shape[0] in ("TSS", "TSD"):
                    dis = oc.item_views_disagree(ci)
                    if dis and retarget and oc.only_removed_items_empty(ci):
                        # known finding F11: on a retarget removed_items()/removed_values() of the input are empty
                        if not known:
                            known = F11
                            known_detail = "t=%d consumer %d (retarget): %s" % (t, c, dis)
                    elif dis:
                        v = ("delta_views_disagree", "t=%d consumer %d%s: %s" % (t, c, " (retarget)" if retarget else "", dis))
                        break
                    added, removed = oc.keysets(shape, ci)
                    cur_keys = set(val) if shape[0] == "TSS" else set(val.keys())
                    pv = prev_view[c]
                    pv_keys = (set(pv) if shape[0] == "TSS" else set(pv.keys())) if pv is not None else set()
                    if removed & cur_keys or not added <= cur_keys or added & removed:
                        v = ("delta_vs_value", "t=%d consumer %d: added %s removed %s inconsistent with the value %s" % (t, c, sorted(added), sorted(removed), sorted(cur_keys)))
                        break
                    if c == 46 and retarget and pv is not None and not removed and added == cur_keys and (pv_keys - cur_keys or pv_keys & cur_keys):
                        # known finding F13: switch_ whose branches end in a reference-shaped terminal reports a key change as
                        # "everything in the new target added, nothing removed" instead of the difference old -> new
                        if not known:
                            known = F13
                            known_detail = "t=%d consumer %d (switch_, reference-shaped branch terminal): previous %s, now %s, added %s removed %s" % (
                                t, c, sorted(pv_keys), sorted(cur_keys), sorted(added), sorted(removed))
                        prev_view[c] = val
                        continue
                    # relational: what the consumer held before + this tick's delta = what it reads now (on a retarget the delta
                    # is the difference between the old and the new target's contents, every live entry sampled as modified)
                    d = ci.get("d")
                    if pv is not None and isinstance(d, dict):
                        try:
                            rep = oc.model_norm(shape, coll.apply(shape, copy.deepcopy(pv), d))
                        except Exception as ex:
                            rep = "cannot be applied: %s" % ex
                        if not isinstance(rep, str) and oc.strip_empty(rep) != oc.strip_empty(got) or isinstance(rep, str):
                            v = ("value_is_prev_plus_delta", "t=%d consumer %d%s: previous view %s + delta %s gives %s but the value reads %s" % (
                                t, c, " (retarget)" if retarget else "", pv, json.dumps(d), rep, got))
                            break
                    # delta_value() - the raw per-tick delta of the input - must agree with the canonical capture whenever it has a value
                    dvv = ci.get("dv")
                    if isinstance(dvv, dict) and isinstance(d, dict) and oc.canon(dvv) != oc.canon(d):
                        if retarget and ticked(cur, t):
                            # known finding F22: the reference was (re-)pointed in the very cycle in which its new target ticked;
                            # delta_value() then shows the new target's own tick - without the removals of the old target's
                            # entries, possibly with removals of elements this consumer never held - while removed() /
                            # removed_keys() and capture_delta() report the difference the consumer actually sees
                            if not known:
                                known = F22
                                known_detail = "t=%d consumer %d (retarget in the cycle of the new target's tick): delta_value() %s, capture_delta() %s" % (t, c, json.dumps(dvv), json.dumps(d))
                        else:
                            v = ("delta_value_vs_capture", "t=%d consumer %d%s: delta_value() reads %s but capture_delta() / the structural accessors give %s" % (
                                t, c, " (retarget)" if retarget else "", json.dumps(dvv), json.dumps(d)))
                            break
                    if retarget and shape[0] == "TSD" and "modk" in ci:
                        live = sorted(str(k) for k, ch in (ci.get("ch") or {}).items() if ch.get("v"))
                        if sorted(map(str, ci["modk"])) != live:
                            v = ("retarget_not_sampled", "t=%d consumer %d: on retarget modified_keys() reads %s; the new target's valid entries are %s" % (t, c, ci["modk"], live))
                            break
                    if pv is not None or retarget:
                        if not removed <= pv_keys:
                            stale = sorted(removed - pv_keys)
                            if retarget:
                                # was known finding F8 (repaired, fixed entry): reported as a violation again if it returns
                                if not known:
                                    known = F8
                                    known_detail = "t=%d consumer %d: on retarget removed %s which its previous value %s did not hold" % (t, c, stale, sorted(pv_keys))
                            else:
                                v = ("removed_never_present", "t=%d consumer %d reports removed %s which its previous value %s did not hold" % (t, c, stale, sorted(pv_keys)))
                                break
                        if retarget and pv is not None:
                            if (pv_keys - cur_keys) - removed:
                                v = ("retarget_delta_incomplete", "t=%d consumer %d: on retarget elements %s vanished without being reported removed" % (t, c, sorted((pv_keys - cur_keys) - removed)))
                                break
                            if (cur_keys - pv_keys) - added and shape[0] == "TSS":
                                v = ("retarget_delta_incomplete", "t=%d consumer %d: on retarget elements %s appeared without being reported added" % (t, c, sorted((cur_keys - pv_keys) - added)))
                                break
                elif retarget and shape[0] == "TS":
                    if ci.get("dv") != ci["val"]:
                        v = ("retarget_delta_is_value", "t=%d consumer %d: on retarget delta_value() reads %s, the value is %s" % (t, c, ci.get("dv"), ci["val"]))
                        break
                prev_view[c] = val
            if v:
                break
        viol = dict(clause=v[0], detail=v[1]) if v else (dict(clause="known_class:" + known.split("-")[0], detail=known_detail, known=known) if known else None)
        return Outcome(violation=viol, stats=stats, digest=res.digest, nontrivial=stats["retargets"] >= 2, sample=sample, shape=runner.h64(text))

    F14_SCENARIO = ("mode higher_order\nwindow 0 12\nwriter 1 shape=TSB\nwscript 1 2|d={\"a\":47,\"b\":43}\nwriter 2 shape=TSB\n"
                    "wscript 2 0|d={\"a\":98,\"b\":9}\nwriter 3 shape=TSBool\nwscript 3 2|d=true;;4|d=false\n"
                    "swsel 40 c=3 a=1 b=2 br=direct\ncons 41 40\n")

    F15_SCENARIO = ("mode higher_order\nwindow 0 8\nwriter 1 shape=TSS\nwscript 1 2|d={\"added\":[],\"removed\":[]}\nwriter 2 shape=TSS\n"
                    "wscript 2 6|d={\"added\":[1],\"removed\":[]}\nwriter 3 shape=TSBool\nwscript 3 0|d=false;;1|d=true\n"
                    "ite 10 c=3 a=1 b=2\ncons 11 10\nswsel 40 c=3 a=1 b=2 br=direct\ncons 41 40\n")

    F21_SCENARIO = ("mode higher_order\nwindow 0 24\nwriter 1 shape=TSB\nwscript 1 1|d={\"a\":98,\"b\":44};;6|d={\"a\":69,\"b\":null}\n"
                    "writer 2 shape=TSB\nwscript 2 12|d={\"a\":1,\"b\":2}\nwriter 3 shape=TSBool\nwscript 3 4|d=true;;5|d=false\n"
                    "ite 10 c=3 a=1 b=2\ncons 11 10\nnpass 20 10\ncons 21 20\n")

    F22_SCENARIO = ("mode higher_order\nwindow 0 10\nwriter 1 shape=TSD\nwscript 1 1|d={\"removed\":[],\"modified\":{\"2\":73,\"4\":89}}\n"
                    "writer 2 shape=TSD\nwscript 2 5|d={\"removed\":[],\"modified\":{\"3\":59,\"5\":71,\"1\":29,\"4\":5,\"6\":71}}\n"
                    "writer 3 shape=TSBool\nwscript 3 3|d=true;;5|d=false\nite 10 c=3 a=1 b=2\ncons 11 10\n")

    def demonstrate_known(self, k):
        """F14 makes every later reading of a bundle selected by switch_ meaningless, so that combination is not generated;
        the finding is re-demonstrated on every run by one fixed scenario instead (and silently disappears once repaired)."""
        if k["id"] == F22:
            # A = {2,4} selected at 3; at 5 the selector flips to B in the cycle of B's first tick {3,5,1,4,6}: removed_keys() / the
            # capture name key 2 as removed, delta_value() does not
            res = runner.run(self.F22_SCENARIO, san=self.san)
            for e in res.events:
                if e["k"] == "C" and e["id"] == 11 and e["t"] == 5 and e["i"] is not None:
                    dv, d = e["i"].get("dv"), e["i"].get("d")
                    return isinstance(dv, dict) and isinstance(d, dict) and not dv.get("removed") and bool(d.get("removed"))
            return False
        if k["id"] == F21:
            # A valid, selected at 4; B (never valid so far) selected at 5; A ticks at 6: the direct consumer (11) is not evaluated,
            # the consumer below the nested pass-through (21) is, and reads A's new value
            res = runner.run(self.F21_SCENARIO, san=self.san)
            t11 = [e["t"] for e in res.events if e["k"] == "C" and e["id"] == 11 and e["i"] is not None]
            t21 = [e["t"] for e in res.events if e["k"] == "C" and e["id"] == 21 and e["i"] is not None]
            return 6 not in t11 and 6 in t21
        if k["id"] == F15:
            # A ticks at t=2 with an empty delta: the if_then_else consumer (11) is evaluated, the switch consumer (41) is not
            res = runner.run(self.F15_SCENARIO, san=self.san)
            t11 = [e["t"] for e in res.events if e["k"] == "C" and e["id"] == 11 and e["i"] is not None]
            t41 = [e["t"] for e in res.events if e["k"] == "C" and e["id"] == 41 and e["i"] is not None]
            return 2 in t11 and 2 not in t41
        if k["id"] != F14:
            return False
        res = runner.run(self.F14_SCENARIO, san=self.san)
        got = {e["t"]: e["i"] for e in res.events if e["k"] == "C" and e["id"] == 41 and e["i"] is not None}
        # first activation (t=2) reads A; on the key change at t=4 the already valid B must be read, but the output reads invalid
        return bool(got.get(2, {}).get("v") == 1 and 4 in got and got[4].get("v") == 0)

    def shrink(self, case):
        sc = ho.normalise(case["sc"])
        for i, w in enumerate(sc["writers"]):
            for off in sorted(w["script"]):
                if len(w["script"]) > 1:
                    q = copy.deepcopy(sc)
                    del q["writers"][i]["script"][off]
                    yield dict(case, sc=q)
        for i, st in enumerate(sc["stmts"]):
            if st.startswith(("cons 12", "cons 21", "cons 31", "cons 41", "cons 46")):
                q = copy.deepcopy(sc)
                del q["stmts"][i]
                yield dict(case, sc=q)


PROPERTY = C13()
