"""C18 - node scheduler wakes the node at every pending time and its queries agree with the pending set."""
import random

import dataflow
import gen_dataflow
import runner
from framework import Outcome

MIN_DT = "MIN_DT"
TAGS = ("a", "b", "c")


def gen_ops(rng, k, window_end):
    ops = []
    for _ in range(rng.choice((0, 1, 1, 2, 2, 3, 4))):
        r = rng.random()
        tag = rng.choice(("", "", "a", "a", "b", "c"))
        suffix = "#" + tag if tag else ""
        if r < 0.45:
            n = rng.choice((1, 1, 2, 3, 4, 6, 0, -1, -2, 50))
            if k == 0 and rng.random() < 0.4:
                n = 0
            ops.append("+%d%s" % (n, suffix))
        elif r < 0.60:
            ops.append("@%d%s" % (rng.randint(0, window_end + 2), suffix))
        elif r < 0.72:
            ops.append("u#" + rng.choice(TAGS))
        elif r < 0.82:
            ops.append("u")
        elif r < 0.92:
            ops.append("p#" + rng.choice(TAGS))
        else:
            ops.append("r")
    return ops


class SchedModel:
    """pending set of (time, tag) with the documented rules"""

    def __init__(self):
        self.events = set()
        self.tags = {}
        self.ever = set()

    def queries(self, now):
        nxt = min(self.events)[0] if self.events else MIN_DT
        tags = {}
        for tg in TAGS:
            if tg in self.tags:
                tags[tg] = [1, self.tags[tg], 1 if self.tags[tg] == now else 0]
            else:
                tags[tg] = [0, MIN_DT, 0]
        return dict(next=nxt, **{"is": bool(self.events), "now": bool(self.events) and nxt == now, "tags": tags})

    def apply(self, op, arg, tag, now, in_start):
        ret = None
        if op in "+@":
            when = now + arg if op == "+" else arg
            accept = when >= now if in_start else when > now
            if accept:
                if tag:
                    if tag in self.tags:
                        self.events.discard((self.tags[tag], tag))
                    self.tags[tag] = when
                self.events.add((when, tag))
                self.ever.add(when)
        elif op == "u":
            if tag in self.tags:
                self.events.discard((self.tags[tag], tag))
                del self.tags[tag]
        elif op == "U":
            if self.events:
                ev = min(self.events)
                self.events.discard(ev)
                self.tags.pop(ev[1], None)
        elif op == "p":
            if tag in self.tags:
                ret = self.tags.pop(tag)
                self.events.discard((ret, tag))
            else:
                ret = MIN_DT
        elif op == "r":
            self.events.clear()
            self.tags.clear()
        return ret

    def fire(self, now):
        for ev in [e for e in self.events if e[0] <= now]:
            self.events.discard(ev)
            if ev[1]:
                self.tags.pop(ev[1], None)


def check_scheduler(prog, events):
    start, end = prog["window"]
    models = {}
    entry_min = {}
    last_eval = {}
    nested_ids = set()
    for n in prog["nodes"]:
        if n["kind"] in ("nested", "nested2", "nested3") and n.get("g") == "SgSched":
            nested_ids.add(n["id"] * 10 + 1)
    n_queries = 0
    stats = dict(ops=0, evaluations=0, probe_tag_replaced=0, probe_cancel_earliest=0, probe_past_request_ignored=0, probe_now_in_start=0,
                 probe_tolerated_cancelled_wakeup=0, probe_wake_by_input=0)

    def cmp_queries(e, m, what):
        q = m.queries(e["t"])
        got = dict(next=e["next"], **{"is": e["is"], "now": e["now"], "tags": e["tags"]})
        if q != got:
            return ("query_mismatch", "id %d t=%d %s: scheduler answers %s, pending-set model says %s" % (e["id"], e["t"], what, got, q))
        return None

    def check_gap(i, upto):
        """no pending time may lie strictly before `upto` once the node has been passed by the engine"""
        m = models[i]
        if m.events:
            w = min(m.events)[0]
            if w < upto and start <= w < end:
                return ("wakeup_missed", "id %d: time %d was still pending but the node was not evaluated at it (next evaluation/end at %s)" % (i, w, upto))
        return None

    stop_t = None
    pending_ev = {}
    for e in events:
        k = e["k"]
        if k == "stopreq":
            stop_t = e["t"]
        if k == "sq":
            i = e["id"]
            m = models.setdefault(i, SchedModel())
            if not e["in_start"]:
                v = check_gap(i, e["t"])
                if v:
                    return v, stats
                stats["evaluations"] += 1
                # is this evaluation explained?
                ev = pending_ev.get(i)
                explained = any(t == e["t"] for (t, _) in m.events) or (ev is not None and any(x[1] for x in ev.get("in", [])))
                if not explained:
                    if e["t"] in m.ever:
                        stats["probe_tolerated_cancelled_wakeup"] += 1     # cancellation does not retract the graph's slot (documented)
                    elif i in nested_ids and e["t"] == start:
                        pass                                                # F2 (C09): sampled start of an all-Unchecked boundary consumer
                    else:
                        return ("unexplained_evaluation", "id %d evaluated at %d: no pending request, no input tick, never requested" % (i, e["t"])), stats
                elif ev is not None and any(x[1] for x in ev.get("in", [])) and not any(t == e["t"] for (t, _) in m.events):
                    stats["probe_wake_by_input"] += 1
                if any(t < e["t"] for (t, _) in m.events):
                    return ("evaluated_with_past_pending", "id %d at %d still holds a pending time in the past" % (i, e["t"])), stats
            entry_min[i] = min(m.events)[0] if m.events else None
            last_eval[i] = (e["t"], e["in_start"])
            v = cmp_queries(e, m, "on entry")
            n_queries += 1
            if v:
                return v, stats
        elif k == "sop":
            i = e["id"]
            m = models[i]
            stats["ops"] += 1
            op, arg, tag = e["op"], e["arg"], e["tag"]
            if op in "+@":
                when = e["t"] + arg if op == "+" else arg
                if tag and tag in m.tags and (when >= e["t"] if e["in_start"] else when > e["t"]):
                    stats["probe_tag_replaced"] += 1
                if not (when >= e["t"] if e["in_start"] else when > e["t"]):
                    stats["probe_past_request_ignored"] += 1
                if e["in_start"] and when == e["t"]:
                    stats["probe_now_in_start"] += 1
            if op == "U" and m.events:
                stats["probe_cancel_earliest"] += 1
            ret = m.apply(op, arg, tag, e["t"], e["in_start"])
            if op == "p" and e.get("ret") != ret:
                return ("pop_tag_result", "id %d t=%d pop_tag(%s) returned %s, model %s" % (i, e["t"], tag, e.get("ret"), ret)), stats
            v = cmp_queries(e, m, "after op %d (%s%s#%s)" % (e["n"], op, arg, tag))
            n_queries += 1
            if v:
                return v, stats
        elif k == "ev":
            pending_ev[e["id"]] = e
        elif k == "nx" or k == "cycend":
            # after the evaluation the runtime consumes what fired: only when the earliest event was due on entry
            for i, (t, in_start) in list(last_eval.items()):
                if not in_start and entry_min.get(i) == t:
                    models[i].fire(t)
                del last_eval[i]
                pending_ev.pop(i, None)
    horizon = end if stop_t is None else min(end, stop_t + 1)
    ran_ok = any(e["k"] == "ran" and e["run"] == "ok" for e in events)
    if ran_ok:
        for i in models:
            v = check_gap(i, horizon)
            if v:
                return v, stats
    stats["queries_compared"] = n_queries
    return None, stats


class C18:
    id = "C18"
    level = "exploration"
    quick_runs = 2500
    quick_budget_s = 120
    thorough_budget_s = 900
    san = False
    rule = ("1-4 scheduler-scripted nodes (source-shaped and input-driven, at the root and inside nested children) each executing, in start and on each "
            "of its evaluations, a seeded list of operations from {schedule(abs|delta, tag?), un_schedule(tag), un_schedule(), pop_tag, reset} over "
            "times {past, now, now+1..+6, far, absolute} and tags {none,a,b,c}; after every operation all queries (next_scheduled_time, is_scheduled, "
            "is_scheduled_now, has_tag/tag_time/tag_is_scheduled_now for each tag) are logged and compared with a pending-set reference model; every "
            "time still pending when the engine passes it must have an evaluation of the node at exactly that time; no evaluation in the past or at a "
            "time nothing explains (tolerated, as documented: a time that was requested and later cancelled). non-trivial = >= 3 operations executed; "
            "distinct = distinct operation/evaluation histories")
    assumptions = ["cancellation does not retract the graph's schedule slot (documented): an extra evaluation at a cancelled time is not asserted either way"]

    def gen(self, seed):
        rng = random.Random(seed)
        start = rng.choice((0, 0, 2, 5))
        end = start + rng.choice((6, 12, 25, 40))
        nodes, sinks, scripts, tscripts = [], [], {}, {}
        nid = 1
        for _ in range(rng.randint(1, 2)):
            scripts[nid] = gen_dataflow.gen_script(rng, end, dense=rng.random() < 0.3)
            nodes.append(dict(name="s%d" % nid, kind="source", args=[], id=nid))
            nid += 1
        srcs = [n["name"] for n in nodes]
        sg = 1000
        for _ in range(rng.randint(1, 4)):
            r = rng.random()
            kmax = rng.randint(1, 8)
            ts = {k: gen_ops(rng, k, end) for k in range(0, kmax + 1) if (k > 0 or rng.random() < 0.8)}
            if r < 0.4:
                tscripts[nid] = ts
                if not any(o[0] in "+@" for o in ts.get(0, [])):
                    tscripts[nid][0] = ts.get(0, []) + ["+%d" % rng.choice((0, 0, 1, 3))]
                nodes.append(dict(name="t%d" % nid, kind="timer0", args=[], id=nid))
                sinks.append(dict(kind="rec", id=500 + nid, port="t%d" % nid))
                nid += 1
            elif r < 0.8:
                tscripts[nid] = ts
                nodes.append(dict(name="t%d" % nid, kind="timer1", args=[rng.choice(srcs)], id=nid))
                sinks.append(dict(kind="rec", id=500 + nid, port="t%d" % nid))
                nid += 1
            else:
                tscripts[sg * 10 + 1] = ts
                nodes.append(dict(name="g%d" % sg, kind=rng.choice(("inline", "nested", "nested2")), g="SgSched", args=[rng.choice(srcs)], p=1, q=1, id=sg))
                sinks.append(dict(kind="rec", id=500 + sg, port="g%d" % sg))
                sg += 1
        prog = dict(nodes=nodes, sinks=sinks, binds=[], scripts=scripts, tscripts=tscripts, window=(start, end), faults=[], options={})
        return dict(prog=prog)

    def run(self, case, fresh=False):
        prog = dataflow.normalise(case["prog"])
        text = dataflow.emit(prog)
        res = runner.run_fresh(text, san=self.san) if fresh else runner.run(text, san=self.san)
        if not res.ok:
            return Outcome(harness_error="harness status=%s signal=%s timeout=%s tail=%s" % (res.status, res.signal, res.timeout, res.raw[-300:]), sample=text)
        for e in res.events:
            if e["k"] in ("wire_error", "harness_error"):
                return Outcome(harness_error="%s: %s" % (e["k"], e.get("what")), sample=text)
        sample = dict(scenario=text, log_head=res.raw[:1500])
        ran = [e for e in res.events if e["k"] == "ran"]
        if not ran or ran[0]["run"] != "ok":
            return Outcome(violation=dict(clause="run_threw", detail=ran[0].get("what") if ran else "no ran event"), digest=res.digest, sample=sample)
        v, stats = check_scheduler(prog, res.events)
        stats["cycles"] = sum(1 for e in res.events if e["k"] == "cyc" and e["g"] == 0)
        stats["simulated_time_us"] = prog["window"][1] - prog["window"][0]
        hist = [(e["id"], e["t"], e.get("op"), e.get("arg"), e.get("tag")) for e in res.events if e["k"] in ("sop", "sq")]
        return Outcome(violation=dict(clause=v[0], detail=v[1]) if v else None, stats=stats, digest=res.digest,
                       nontrivial=stats.get("ops", 0) >= 3, sample=sample, shape=runner.h64(hist))

    def shrink(self, case):
        for q in dataflow.shrink_program(dataflow.normalise(case["prog"])):
            yield dict(prog=q)


PROPERTY = C18()
