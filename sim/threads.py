"""mode threads: scenario representation, emission, history parsing and the C16 / C17 oracles."""
import copy
import random


def emit(sc):
    lines = ["mode threads", "seed %d" % sc["seed"],
             "window start=%d end=%d slice=%d" % (sc["start"], sc["end"], sc["slice"])]
    for p in sc["pushes"]:
        lines.append("push %s policy=%s capacity=%d id=%d" % (p["name"], p["policy"], p["capacity"], p["id"]))
    for t in sc.get("timers", []):
        lines.append("timer %d %s" % (t["id"], ";".join("%d:%s" % (k, ",".join(ops)) for k, ops in sorted(t["script"].items()) if ops)))
    for t in sc.get("watches", []):
        lines.append("watch %d %s %s" % (t["id"], t["push"], ";".join("%d:%s" % (k, ",".join(ops)) for k, ops in sorted(t["script"].items()) if ops)))
    for i, w in sorted(sc.get("work", {}).items()):
        lines.append("work %d %d" % (int(i), w))
    for th in sc["threads"]:
        ops = []
        for o in th["ops"]:
            if o[0] in ("try", "block"):
                ops.append("%s %s %d" % (o[0], o[1], o[2]))
            elif o[0] == "sleep":
                ops.append("sleep %d" % o[1])
            else:
                ops.append(o[0])
        lines.append("thread %s: %s" % (th["name"], "; ".join(ops)))
    f = sc.get("faults", {})
    if f:
        parts = ["%s=%s" % (k, f[k]) for k in ("spurious", "stall", "stall_us", "late", "late_us", "jitter") if k in f]
        if f.get("starve"):
            parts.append("starve=%d:%d:%d" % tuple(f["starve"]))
        lines.append("faults " + " ".join(parts))
    if sc.get("tape") is not None:
        # replay of an explicit (minimised) schedule and fault trace: one small integer per decision, 0 = nothing unusual
        lines.append("tape " + ",".join(str(d) for d in sc["tape"]))
    if sc.get("emit_tape"):
        lines.append("emit_tape")
    if sc.get("instr"):
        lines.append("instr %d" % sc["instr"] + (" target=%d" % sc["instr_target"] if sc.get("instr_target") else "") + (" cap=%d" % sc["instr_cap"] if sc.get("instr_cap") else "")
                     + (" profile=1" if sc.get("instr_profile") else "") + (" site=%s" % sc["instr_site"] if sc.get("instr_site") else "")
                     + (" skip=%d" % sc["instr_skip"] if sc.get("instr_skip") else ""))
    if sc.get("maxsteps"):
        lines.append("maxsteps %d" % sc["maxsteps"])
    return "\n".join(lines) + "\n"


def gen_scenario(seed, kind="push"):
    """kind: 'push' (C16 emphasis) or 'timers' (C17 emphasis); both contain a bit of the other"""
    rng = random.Random(seed)
    sc = dict(seed=rng.getrandbits(32), start=rng.choice((0, 0, 0, -500, -50000)), slice=rng.choice((10_000_000, 10_000_000, 1000, 100, 7, 1)),
              pushes=[], timers=[], threads=[], work={}, faults={})
    horizon = rng.choice((2000, 20000, 200000))
    sc["end"] = rng.choice((horizon, horizon * 5, 2_000_000))
    if sc["slice"] < 10000:
        # every elapsed slice is one scheduler step: keep the idle part of the window within the step budget
        sc["end"] = min(sc["end"], sc["slice"] * 4000)
        horizon = min(horizon, sc["end"])
    n_push = rng.choice((1, 1, 1, 2)) if kind == "push" else rng.choice((0, 1))
    for i in range(n_push):
        sc["pushes"].append(dict(name="p%d" % (i + 1), policy=rng.choice(("queue", "queue", "queue", "burst", "conflating")),
                                 capacity=rng.choice((0, 1, 1, 2, 3)), id=i + 1))
    n_thr = rng.randint(1, 4) if n_push else 0
    vid = 100
    for t in range(n_thr):
        ops = []
        for _ in range(rng.randint(1, 7)):
            r = rng.random()
            p = rng.choice(sc["pushes"])["name"]
            if r < 0.45:
                ops.append(("try", p, vid)); vid += 1
            elif r < 0.75:
                ops.append(("block", p, vid)); vid += 1
            elif r < 0.9:
                ops.append(("sleep", rng.choice((1, 5, 50, 500, horizon // 3 + 1))))
            else:
                ops.append(("yield",))
        sc["threads"].append(dict(name="T%d" % t, ops=ops))
    n_tim = rng.randint(1, 3) if kind == "timers" else rng.choice((0, 0, 1))
    for i in range(n_tim):
        script = {}
        for k in range(0, rng.randint(1, 5)):
            ops = []
            for _ in range(rng.choice((0, 1, 1, 2))):
                r = rng.random()
                if r < 0.45:
                    ops.append("+%d" % rng.choice((1, 2, 10, 100, 1000, horizon // 2 + 1, 0, -5)))
                elif r < 0.65:
                    ops.append("@%d" % rng.randint(-100, horizon))
                elif r < 0.85:
                    ops.append("w+%d" % rng.choice((0, 1, 10, 500, horizon // 3 + 1, -20)))
                else:
                    ops.append("w@%d" % rng.randint(-2000, horizon))      # possibly already due
            script[k] = ops
        if not script.get(0):
            script[0] = ["+%d" % rng.choice((0, 1, 50, 1000))]
        sc["timers"].append(dict(id=50 + i * 10, script=script))
        if rng.random() < 0.3:
            sc["work"][str(1000 + 50 + i * 10)] = rng.choice((5, 200, 5000))      # slow evaluations: the graph lags
    if sc["pushes"] and rng.random() < 0.2:
        sc["work"][str(sc["pushes"][0]["id"])] = rng.choice((5, 100, 2000))
    plain = [p for p in sc["pushes"] if p["policy"] != "burst"]
    if kind == "timers" and plain and sc["threads"] and rng.random() < 0.6:
        # a "watchdog": scheduler-scripted node with a push-fed input. It holds two or three pending (tagged) events; an input tick
        # evaluates it while none of them is due, and that evaluation may move or cancel the earliest one
        rr = random.Random(seed ^ 0x3A7C)
        d = lambda: rr.choice((40, 150, 600, 2500, horizon // 3 + 1, horizon // 2 + 1))
        script = {0: ["+%d#to" % d(), "+%d#fl" % d()] + (["+%d" % d()] if rr.random() < 0.3 else [])}
        for k in range(1, rr.randint(2, 6)):
            r2 = rr.random()
            script[k] = ["+%d#to" % d()] if r2 < 0.45 else ["u#to"] if r2 < 0.6 else ["+%d#fl" % d()] if r2 < 0.75 else []
        sc["watches"] = [dict(id=70, push=plain[0]["name"], script=script)]
    # stop: explicit request at a seeded moment, or the end time
    r = rng.random()
    if r < 0.5:
        sc["threads"].append(dict(name="S", ops=[("sleep", rng.choice((1, 30, 300, horizon // 2 + 1, horizon * 2))), ("stop",)]))
    if rng.random() < 0.6:
        f = dict(spurious=rng.choice((0, 0.01, 0.05)), stall=rng.choice((0, 0.005, 0.03)), stall_us=rng.choice((50, 5000, 500000)),
                 late=rng.choice((0, 0.1)), late_us=rng.choice((5, 500)), jitter=rng.choice((1, 3, 10)))
        if rng.random() < 0.3 and sc["threads"]:
            f["starve"] = (rng.randrange(0, len(sc["threads"]) + 1), rng.randint(0, 100), rng.randint(5, 80))
        sc["faults"] = f
    return sc


class History:
    """the recorded history of one run, indexed by log position (a total order)"""

    def __init__(self, events, sc):
        self.sc = sc
        self.events = events
        self.sends = []        # dict(th, op, push, v, inv, ret, res)
        self.dlv = []          # dict(id, t, wall, vals, idx)
        self.cycles = []       # (idx, t)
        self.stops = []        # dict(inv, ret)
        self.run_inv = self.run_ret = None
        self.run_res = None
        self.forced = []       # (idx, th, kind, wall)
        self.tev = []
        self.treq = []
        self.node_stop = {}    # node index -> idx of before_stop_node (root graph)
        self.push_ne = {}      # node index -> [idx of 'ne']
        self.end = None
        self.simfail = None
        open_send = {}
        for idx, e in enumerate(events):
            k = e["k"]
            if k == "thr":
                if e["op"] in ("try", "block"):
                    key = (e["th"], e["v"])
                    if e["phase"] == "inv":
                        open_send[key] = dict(th=e["th"], op=e["op"], push=e["push"], v=e["v"], inv=idx, ret=None, res=None, wall_inv=e["wall"], eng=e.get("eng"))
                        self.sends.append(open_send[key])
                    else:
                        s = open_send.get(key)
                        if s is not None:
                            s["ret"] = idx
                            s["res"] = e["res"]
                            s["wall_ret"] = e["wall"]
                elif e["op"] == "stop":
                    if e["phase"] == "inv":
                        self.stops.append(dict(inv=idx, ret=None, wall=e["wall"], seq=e["seq"]))
                    else:
                        self.stops[-1]["ret"] = idx
                        self.stops[-1]["seq_ret"] = e["seq"]
                elif e["op"] == "run":
                    if e["phase"] == "inv":
                        self.run_inv = idx
                    else:
                        self.run_ret = idx
                        self.run_res = e
            elif k == "dlv":
                vals = e["vs"] if "vs" in e else [e["v"]]
                self.dlv.append(dict(id=e["id"], t=e["t"], wall=e["wall"], vals=vals, idx=idx))
            elif k == "cyc" and e["g"] == 0:
                self.cycles.append((idx, e["t"]))
            elif k == "sched" and e["why"] == "forced_timeout":
                self.forced.append((idx, e["th"], e["kind"], e["wall"]))
            elif k == "tev":
                self.tev.append(dict(e, idx=idx))
            elif k == "treq":
                self.treq.append(dict(e, idx=idx))
            elif k == "life" and e["e"] == "before_stop_node" and e["g"] == 0:
                self.node_stop[e["i"]] = idx
            elif k == "end":
                self.end = e
            elif k == "simfail":
                self.simfail = e
        self.faulty = bool(sc.get("faults")) or bool(sc.get("work"))


def check_push(h):
    """C16 clauses over the send / deliver history. Returns (clause, detail) or None, and stats"""
    sc = h.sc
    stats = dict(sends=len(h.sends), accepted=0, refused=0, delivered=0, probe_refused_try_full=0, probe_blocking_send_waited=0, probe_send_after_stop=0,
                 probe_failed_blocking_send=0, probe_push_while_engine_in_timed_wait=0, probe_multi_item_burst=0)
    if h.simfail:
        return ("deadlock_or_step_limit", "simulator: %s at seq %s" % (h.simfail["what"], h.simfail["seq"])), stats
    stop_inv = h.stops[0]["inv"] if h.stops else None
    stop_ret = h.stops[0]["ret"] if h.stops and h.stops[0]["ret"] is not None else None
    for n, p in enumerate(sc["pushes"]):
        sends = [s for s in h.sends if s["push"] == p["name"]]
        dl = [d for d in h.dlv if d["id"] == p["id"]]
        accepted = {s["v"]: s for s in sends if s["res"] is True}
        stats["accepted"] += len(accepted)
        # (the engine thread was blocked in a timed condition-variable wait when this accepted send was invoked: the wake-up path)
        stats["probe_push_while_engine_in_timed_wait"] += sum(1 for s in accepted.values() if s.get("eng") == 3)
        stats["refused"] += sum(1 for s in sends if s["res"] is False)
        flat = [(v, d) for d in dl for v in d["vals"]]
        stats["delivered"] += len(flat)
        stats["probe_multi_item_burst"] += sum(1 for d in dl if len(d["vals"]) > 1)
        node_stop = h.node_stop.get(n)     # push sources are ranked first, in wiring order
        # 1. delivered values were accepted, each at most once; queue: one per cycle, times strictly increasing
        seen = set()
        for v, d in flat:
            s = [x for x in sends if x["v"] == v]
            if not s:
                return ("delivered_unsent", "value %d delivered but never sent" % v), stats
            if s[0]["res"] is False:
                return ("delivered_refused", "value %d delivered although its send was refused" % v), stats
            if s[0]["inv"] > d["idx"]:
                return ("delivered_before_sent", "value %d delivered before its send was invoked" % v), stats
            if p["policy"] != "conflating" and v in seen:
                return ("delivered_twice", "value %d delivered twice" % v), stats
            seen.add(v)
        if p["policy"] == "queue":
            for a, b in zip(dl, dl[1:]):
                if not a["t"] < b["t"]:
                    return ("delivery_times", "queue deliveries at engine times %d then %d (one per cycle, strictly increasing)" % (a["t"], b["t"])), stats
        # 2. order: per producer, and real-time order across producers (FIFO linearizability)
        pos = {}
        for i, (v, d) in enumerate(flat):
            pos.setdefault(v, i)
        for th in {s["th"] for s in sends}:
            mine = [s for s in sends if s["th"] == th and s["res"] is True]
            got = [s["v"] for s in mine if s["v"] in pos]
            if sorted(got, key=lambda v: pos[v]) != got:
                return ("producer_order", "producer %s sent %s but they were delivered as %s" % (th, [s["v"] for s in mine], sorted(got, key=lambda v: pos[v]))), stats
            if p["policy"] != "conflating":
                # delivered values of one producer form a prefix of its accepted sequence
                acc = [s["v"] for s in mine]
                if got != acc[:len(got)]:
                    return ("not_a_prefix", "producer %s: accepted %s, delivered %s (a later value overtook an earlier one that was dropped)" % (th, acc, got)), stats
        if p["policy"] != "conflating":
            acc_list = [s for s in sends if s["res"] is True and s["ret"] is not None]
            for a in acc_list:
                for b in acc_list:
                    if a["ret"] < b["inv"] and b["v"] in pos:
                        if a["v"] not in pos:
                            return ("not_a_prefix", "value %d (send returned before value %d was sent) was dropped although %d was delivered" % (a["v"], b["v"], b["v"])), stats
                        if pos[a["v"]] > pos[b["v"]]:
                            return ("fifo_order", "send of %d returned before send of %d began, yet %d was delivered first" % (a["v"], b["v"], b["v"])), stats
        # 3. liveness + lost wake-up
        # (asserted only where nothing injected can make the graph lag past end_time: with stalls or slow evaluations the
        #  run may legitimately reach its end before the value's cycle; the lost wake-up clause below still applies)
        if p["policy"] != "conflating" and stop_inv is None and h.run_ret is not None and not h.faulty:
            end_wall = sc["end"]
            for s in accepted.values():
                if s["v"] not in pos and s.get("wall_ret", 10 ** 18) < end_wall - 1000:
                    if sc.get("instr"):
                        # instrumented runs: every extra scheduler step advances the clock, so the engine is slow relative
                        # to the wall clock and may legitimately run out of window. The value counts as stalled only if the
                        # engine went through at least 3 further cycles after the send returned without this source
                        # delivering anything (or sat in a forced time-out: the clause below)
                        later = [t for (i, t) in h.cycles if i > s["ret"]]
                        if len(later) < 3 or any(e["k"] == "dlv" and e["id"] == p["id"] for e in h.events[s["ret"]:]):
                            continue
                    return ("accepted_not_delivered", "value %d was accepted at wall %s, no stop was requested and the run lasted until %d, but it was never delivered" % (s["v"], s.get("wall_ret"), end_wall)), stats
        for (idx, th, kind, wall) in h.forced:
            if th != 0 or kind != "cond":
                continue
            if stop_ret is not None and stop_ret < idx:
                return ("lost_wakeup_stop", "engine left a timed wait only by forced timeout (wall %d) although request_stop had returned" % wall), stats
            for s in accepted.values():
                if s["ret"] is not None and s["ret"] < idx and (node_stop is None or node_stop > idx):
                    delivered_idx = [d["idx"] for (v, d) in flat if v == s["v"]]
                    if p["policy"] == "conflating":
                        continue
                    if not delivered_idx or delivered_idx[0] > idx:
                        return ("lost_wakeup_push", "engine sat in a timed wait until a forced timeout (wall %d) while accepted value %d was waiting in the queue" % (wall, s["v"])), stats
        # 4. capacity
        if p["capacity"] > 0 and p["policy"] != "conflating":
            marks = []
            for s in sends:
                if s["res"] is True:
                    marks.append((s["ret"], +1, s["v"]))
            deq_started = []
            for d in dl:
                # the dequeue happened inside the push node's evaluation, which began at the enclosing cycle
                cyc = max(i for (i, t) in h.cycles if i < d["idx"])
                deq_started.append((cyc, -len(d["vals"]), None))
            level = 0
            for (i, dv, v) in sorted(marks + deq_started):
                level += dv
                if level > p["capacity"]:
                    return ("capacity_exceeded", "after the send of %s returned true, %d values were accepted and not yet dequeued; capacity is %d" % (v, level, p["capacity"])), stats
        # 5. refusals
        for s in sends:
            if s["ret"] is None:
                if h.run_ret is not None and stop_inv is None and p["policy"] != "conflating":
                    pass
                continue
            stopped = (stop_inv is not None and stop_inv < s["ret"]) or (node_stop is not None and node_stop < s["ret"]) or (h.run_ret is not None and h.run_ret < s["ret"])
            if s["res"] is False:
                if s["op"] == "try":
                    if stopped:
                        stats["probe_send_after_stop"] += 1
                        continue
                    if p["capacity"] == 0 or p["policy"] == "conflating":
                        return ("unjustified_refusal", "try_send(%d) refused on an unbounded/conflating source that had not stopped" % s["v"]), stats
                    possibly_accepted = sum(1 for x in sends if x["res"] is True and x["inv"] < s["ret"])
                    surely_dequeued = sum(len(d["vals"]) for d in dl if d["idx"] < s["inv"])
                    if possibly_accepted - surely_dequeued < p["capacity"]:
                        return ("unjustified_refusal", "try_send(%d) refused although at most %d values could have been queued (capacity %d) and the source had not stopped" % (s["v"], possibly_accepted - surely_dequeued, p["capacity"])), stats
                    stats["probe_refused_try_full"] += 1
                else:
                    if not stopped:
                        return ("blocking_send_failed", "send_blocking(%d) returned false although the source had not stopped" % s["v"]), stats
                    stats["probe_failed_blocking_send"] += 1
            else:
                if node_stop is not None and s["inv"] > node_stop and h.events[node_stop]:
                    # accepted after the source's stop began: only a violation once stop has completed
                    after = [i for i, e in enumerate(h.events) if e["k"] == "life" and e["e"] == "after_stop_node" and e["g"] == 0 and e["i"] == n]
                    if after and s["inv"] > after[0]:
                        return ("accepted_after_stop", "send of %d invoked after the push source had stopped was accepted" % s["v"]), stats
                if s["op"] == "block" and s.get("wall_ret", 0) - s.get("wall_inv", 0) > 20:
                    stats["probe_blocking_send_waited"] += 1
    if h.run_ret is None:
        return ("run_did_not_return", "the engine never returned from run()"), stats
    return None, stats


def superseded_requests(h, reqs):
    """tagged requests: a tag holds one pending time - an accepted later request for the same tag replaces the earlier one, an
    un_schedule(tag) cancels it. Returns {index in reqs: engine time at which the request stopped being pending}"""
    gone = {}
    pending = {}          # (node id, tag) -> index in reqs
    by_idx = {r["idx"]: i for i, r in enumerate(reqs)}
    for e in h.treq:
        tag = e.get("tag") or ""
        if not tag:
            continue
        key = (e["id"], tag)
        if e["op"] == "u":
            if key in pending:
                gone[pending.pop(key)] = e["t"]
            continue
        i = by_idx.get(e["idx"])
        if i is None or reqs[i]["when"] is None:
            continue          # a rejected request leaves the pending one alone
        if key in pending:
            gone[pending[key]] = e["t"]
        pending[key] = i
    return gone


def timer_requests(h):
    """logical times the documented NodeScheduler rule accepts, per timer request"""
    out = []
    for r in h.treq:
        t, wall, n, op = r["t"], r["wall"], r["arg"], r["op"]
        in_start = r["in_start"]
        if op == "+":
            when = t + n
            ok = when >= t if in_start else when > t
            out.append(dict(r, when=when if ok else None, alarm=False))
        elif op == "@":
            when = n
            ok = when >= t if in_start else when > t
            out.append(dict(r, when=when if ok else None, alarm=False))
        elif op in ("w", "a"):
            ref = max(t, wall)
            when = ref + n if op == "w" else n
            if in_start:
                if when < ref:
                    when = ref
            elif when <= ref:
                when = max(t + 1, ref)
            out.append(dict(r, when=when, alarm=True))
    return out


def check_realtime(h):
    """C17 clauses"""
    sc = h.sc
    stats = dict(cycles=len(h.cycles), timer_requests=0, honoured=0, probe_alarm_already_due=0, probe_late_delivery=0, probe_stop_while_waiting=0,
                 probe_end_time_reached=0, probe_lagging=0, probe_start_in_past=1 if sc["start"] < 0 else 0, probe_idle_graph=0)
    if h.simfail:
        return ("deadlock_or_step_limit", "simulator: %s at seq %s" % (h.simfail["what"], h.simfail["seq"])), stats
    if h.run_ret is None:
        return ("run_did_not_return", "the engine never returned from run()"), stats
    if h.run_res.get("res") != "ok":
        return ("run_threw", h.run_res.get("what", "")[:300]), stats
    times = [t for (_, t) in h.cycles]
    for a, b in zip(times, times[1:]):
        if not a < b:
            return ("time_not_increasing", "cycle at %d followed by %d" % (a, b)), stats
    for t in times:
        if t < sc["start"] or t >= sc["end"]:
            return ("outside_window", "cycle at %d outside [%d,%d)" % (t, sc["start"], sc["end"])), stats
    # never before the wall clock has reached T
    # (push-driven cycles are floored at previous+MIN_TD by design - "two wakes can land in the same microsecond" - so
    #  only evaluations of nodes *scheduled* for a logical time are held to the wall clock)
    tset = set(times)
    for e in h.tev:
        if e.get("inp") and not e.get("due"):
            continue          # evaluated by an input tick, not scheduled for this time: push-driven cycles are floored at previous + MIN_TD
        if e["wall"] < e["t"]:
            lead = e["t"] - e["wall"]
            # known finding F4: logical time ran ahead of the wall clock through the MIN_TD floor of push-driven cycles
            # (all `lead` preceding cycles are consecutive MIN_TD steps): the timer is then early by exactly that lead
            if lead <= 64 and all(((e["t"] - j) in tset or (e["t"] - j) == sc["start"]) for j in range(1, lead + 1)):
                stats["known_F4"] = stats.get("known_F4", 0) + 1
                continue
            return ("evaluated_early", "node %s evaluated at logical %d when the wall clock was only at %d" % (e["id"], e["t"], e["wall"])), stats
    stop_ret = h.stops[0]["ret"] if h.stops and h.stops[0]["ret"] is not None else None
    stop_inv = h.stops[0]["inv"] if h.stops else None
    run_ret_wall = h.run_res["wall"]
    evs = {}
    for e in h.tev:
        evs.setdefault(e["id"], {})[e["t"]] = e
    reqs = timer_requests(h)
    stats["timer_requests"] = len(reqs)
    # drain cut-off: only runs that keep re-scheduling every MIN_TD for >= 1024 cycles past end_time may be cut short
    # instrumented build: scheduler steps (and clock advance) may fall between the node's log line and the engine's own
    # reading of the wall clock, so the logical time of a wall-clock alarm is known only approximately there
    fuzzy = {r["id"] for r in reqs if r["alarm"]} if sc.get("instr") else set()
    gone = superseded_requests(h, reqs)
    stats["probe_tag_replaced_or_cancelled_before_due"] = 0
    stats["probe_input_driven_evaluation_with_timers_pending"] = sum(1 for e in h.tev if e.get("inp") and not e.get("due"))
    for ri, r in enumerate(reqs):
        T = r["when"]
        if T is None:
            continue
        if ri in gone and gone[ri] < T:
            stats["probe_tag_replaced_or_cancelled_before_due"] += 1
            continue          # the tag was re-scheduled or cancelled before this time came: no longer pending
        if r["alarm"] and T <= max(r["t"], r["wall"]) + (0 if r["in_start"] else 0):
            stats["probe_alarm_already_due"] += 1
        if r["id"] in fuzzy and r["alarm"]:
            # (no upper bound: the many extra steps of an instrumented run also multiply the injected clock stalls)
            if stop_inv is None and T < sc["end"] - 2000 and not any(x >= T for x in evs.get(r["id"], {})) and run_ret_wall >= sc["end"] and not h.faulty:
                return ("wakeup_dropped", "timer %d asked for a wall-clock alarm near %d; it was never evaluated afterwards (evaluations: %s)" % (
                    r["id"], T, sorted(evs.get(r["id"], {}))[:12])), stats
            continue
        if T < sc["start"] or T >= sc["end"]:
            continue
        got = evs.get(r["id"], {}).get(T)
        if got is None:
            # excused only when a stop was requested before the wake-up could be delivered
            if stop_inv is not None:
                continue
            return ("wakeup_dropped", "timer %d asked (at logical %d, wall %d, op %s%d) for %d < end_time %d; the run ended at wall %d without evaluating it at that time (evaluations: %s)" % (
                r["id"], r["t"], r["wall"], r["op"], r["arg"], T, sc["end"], run_ret_wall, sorted(evs.get(r["id"], {}))[:12])), stats
        stats["honoured"] += 1
        if got["wall"] - T > 50:
            stats["probe_late_delivery"] += 1
    # every evaluation of a timer node is explained by a request for exactly that time
    for tid, m in evs.items():
        if tid in fuzzy:
            continue
        asked = {r["when"] for r in reqs if r["id"] == tid and r["when"] is not None}
        for T in m:
            if T not in asked and not m[T].get("inp"):
                return ("unrequested_evaluation", "timer %d evaluated at %d; requested times were %s" % (tid, T, sorted(asked)[:12])), stats
    # punctuality when nothing makes the graph lag
    # (not in instrumented runs: every extra scheduler step costs simulated wall time, the engine lags by construction)
    if not h.faulty and not any(p for p in sc["pushes"]) and not sc.get("instr"):
        # only timers that were still in the future of the wall clock when they were requested (a window that starts in
        # the past, or an already-due alarm, is late by construction and catches up cycle by cycle)
        future = {(r["id"], r["when"]) for r in reqs if r["when"] is not None and r["when"] >= r["wall"] + 100}
        for e in h.tev:
            if e["wall"] - e["t"] > 400 and (e["id"], e["t"]) in future:
                return ("slept_past_due_timer", "timer %d due at %d was evaluated at wall %d with no stall, slow evaluation or starvation injected" % (e["id"], e["t"], e["wall"])), stats
    else:
        stats["probe_lagging"] = sum(1 for e in h.tev if e["wall"] - e["t"] > 400)
    # stop ends the run after the current cycle
    if stop_ret is not None:
        later = [t for (i, t) in h.cycles if i > stop_ret]
        if len(later) > 1:
            return ("ran_on_after_stop", "%d cycles began after request_stop had returned (at most the cycle in progress may finish): %s" % (len(later), later[:5])), stats
        steps = h.run_res["seq"] - h.stops[0].get("seq_ret", h.run_res["seq"])
        # (instrumented runs have many more scheduler steps per unit of engine work: every extra pre-emption point is one)
        if steps > (4000 if sc.get("instr") else 400):
            return ("stop_not_prompt", "run() returned %d scheduler steps after request_stop returned" % steps), stats
        stats["probe_stop_while_waiting"] += 1
    else:
        # the end time ends the run: not before the wall clock reaches it, and the run does return
        if run_ret_wall < sc["end"]:
            return ("ended_before_end_time", "run() returned at wall %d, before end_time %d, without a stop request" % (run_ret_wall, sc["end"])), stats
        stats["probe_end_time_reached"] += 1
        if not h.cycles or len(h.cycles) <= 1:
            stats["probe_idle_graph"] += 1
    for (idx, th, kind, wall) in h.forced:
        if th == 0 and kind == "cond" and stop_ret is not None and stop_ret < idx:
            return ("lost_wakeup_stop", "engine left a timed wait only by forced timeout (wall %d) although request_stop had returned" % wall), stats
    return None, stats


def shrink_scenario(sc):
    # drop threads, ops, timers, timer ops, pushes, faults, work; pin the decision list last
    for i in range(len(sc["threads"])):
        q = copy.deepcopy(sc)
        del q["threads"][i]
        yield q
    for i, th in enumerate(sc["threads"]):
        for j in range(len(th["ops"])):
            q = copy.deepcopy(sc)
            del q["threads"][i]["ops"][j]
            yield q
    for i in range(len(sc.get("timers", []))):
        q = copy.deepcopy(sc)
        del q["timers"][i]
        yield q
    for i, t in enumerate(sc.get("timers", [])):
        for k in list(t["script"]):
            for j in range(len(t["script"][k])):
                q = copy.deepcopy(sc)
                del q["timers"][i]["script"][k][j]
                yield q
    for i in range(len(sc["pushes"])):
        q = copy.deepcopy(sc)
        name = q["pushes"][i]["name"]
        del q["pushes"][i]
        for th in q["threads"]:
            th["ops"] = [o for o in th["ops"] if not (o[0] in ("try", "block") and o[1] == name)]
        yield q
    if sc.get("faults"):
        q = copy.deepcopy(sc)
        q["faults"] = {}
        yield q
        for k in list(sc["faults"]):
            q = copy.deepcopy(sc)
            del q["faults"][k]
            yield q
    if sc.get("work"):
        q = copy.deepcopy(sc)
        q["work"] = {}
        yield q
    if sc["slice"] != 10_000_000:
        q = copy.deepcopy(sc)
        q["slice"] = 10_000_000
        yield q


def normalise(sc):
    q = copy.deepcopy(sc)
    for t in q.get("timers", []):
        t["script"] = {int(k): list(v) for k, v in t["script"].items()}
    for th in q["threads"]:
        th["ops"] = [tuple(o) for o in th["ops"]]
    if q.get("faults", {}).get("starve"):
        q["faults"]["starve"] = tuple(q["faults"]["starve"])
    return q


def profiled_sites(events):
    """site sweep: the candidate call sites listed by a profile run: [(hex address, thread id, entries, symbol+offset)]"""
    for e in events:
        if e["k"] == "sites":
            return [tuple(x) for x in e["v"]]
    return None


def recorded_tape(events):
    for e in events:
        if e["k"] == "tape":
            return [int(x) for x in e["v"].split(",")] if e["v"] else []
    return None


def shrink_tape(run_same, tape, max_runs=400):
    """Minimise a schedule tape: shortest reproducing prefix (decisions beyond the end are the default: keep running the
    current thread, no fault), then zero blocks of decisions (delta debugging, halving block sizes) while run_same(tape)
    still reports the same violation. Returns (tape, runs used)."""
    runs = 0
    best = list(tape)
    while best and best[-1] == 0:
        best.pop()
    # 1. prefix by bisection (monotone enough in practice; verified by run_same at every accepted step)
    lo, hi = 0, len(best)
    while lo < hi and runs < max_runs:
        mid = (lo + hi) // 2
        runs += 1
        if run_same(best[:mid]):
            hi = mid
        else:
            lo = mid + 1
    if hi < len(best):
        runs += 1
        if run_same(best[:hi]):
            best = best[:hi]
    while best and best[-1] == 0:
        best.pop()
    # 2. zero blocks
    size = max(1, len(best) // 2)
    while size >= 1 and runs < max_runs:
        i = 0
        progress = False
        while i < len(best) and runs < max_runs:
            blk = best[i:i + size]
            if any(blk):
                cand = best[:i] + [0] * len(blk) + best[i + size:]
                runs += 1
                if run_same(cand):
                    best = cand
                    progress = True
            i += size
        if size == 1 and not progress:
            break
        size = size // 2 if size > 1 else (1 if progress else 0)
    while best and best[-1] == 0:
        best.pop()
    return best, runs
