"""C17 - real-time loop never runs early, never drops a wake-up, always stops."""
import threads as th
from framework import Outcome
from p_c16 import ThreadsProperty


F4 = "F4-timer-early-after-same-microsecond-push-cycles"


class C17(ThreadsProperty):
    id = "C17"
    kind = "timers"
    quick_runs = 3000
    quick_budget_s = 150
    thorough_budget_s = 900
    rule = ("the tree's real real-time executor on a simulated wall clock: 1-3 scheduler-scripted nodes requesting relative and absolute timers and "
            "wall-clock alarms (on_wall_clock=true, incl. already-due ones and requests made during start), optionally a push source fed by producer "
            "threads, a stopper thread or the end time; windows starting in the past, end_time reached while lagging, idle graphs; max_wait_slice "
            "1 us..10 s; faults: clock stalls and slow evaluations (the graph lags), spurious wake-ups, late timed waits, starvation. Oracle: strictly "
            "increasing evaluation times inside the window; every evaluation at logical T happens when the wall clock is >= T; every accepted request "
            "with T < end_time is evaluated at exactly T (late when lagging) unless a stop was requested; no evaluation at an unrequested time; without "
            "injected lag a due timer is evaluated within 400 us; after request_stop returns at most one more cycle begins and run() returns within 400 "
            "scheduler steps; without a stop run() returns only once the wall clock has reached end_time; no forced time-out of the engine's wait after a "
            "stop request returned (lost wake-up); no deadlock. non-trivial = >= 30 scheduler steps; distinct = distinct interleavings"
            " Round 3: a watch node (scripted tagged timers next to a push-fed input; tag replacement and cancellation modelled); the instrumented pass runs site sweeps (one run per call site entered while another thread was runnable).")
    assumptions = ["backward steps of the wall clock are not injected (the statement has no meaning under them)",
                   "tag replacement and cancellation are excluded here (C18 owns them); the drain cut-off (>= 1024 consecutive MIN_TD cycles past end_time) is not provoked"]

    def run_one(self, case, fresh=False, keep_events=False):
        sc, text, res = self.execute(case, fresh)
        if res.timeout:
            return Outcome(harness_error="timeout (real blocking inside the simulator?)", sample=text)
        for e in res.events:
            if e["k"] in ("wire_error", "harness_error"):
                return Outcome(harness_error="%s: %s" % (e["k"], e.get("what")), sample=text)
        if not res.ok and not any(e["k"] == "simfail" for e in res.events):
            return Outcome(violation=dict(clause="crash", detail="harness status=%s signal=%s tail=%s" % (res.status, res.signal, res.raw[-300:])), digest=res.digest,
                           sample=dict(scenario=text))
        h = th.History(res.events, sc)
        v, stats = th.check_realtime(h)
        if not v:
            v2, s2 = th.check_push(h)
            if v2 and v2[0].startswith("lost_wakeup"):
                v = v2
        out = self.outcome(sc, text, res, v, stats, keep_events)
        if not v and stats.get("known_F4"):
            out.violation = dict(clause="known", detail=F4, known=F4)
        return out


PROPERTY = C17()
