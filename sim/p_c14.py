"""C14 - every started node is stopped exactly once, in reverse order, whatever fails (fault enumeration)."""
import copy
import random

import dataflow
import gen_dataflow
import ho
import oracle_lifecycle as ol
import runner
from framework import Outcome


def fault_points(events):
    """(id, phase, occurrences) of every vocabulary hook executed in the fault-free run"""
    counts = {}
    for e in events:
        if e["k"] == "u" and e.get("id"):
            counts[(e["id"], e["e"])] = counts.get((e["id"], e["e"]), 0) + 1
        elif e["k"] in ("ev", "rec") and e.get("id"):
            counts[(e["id"], "eval")] = counts.get((e["id"], "eval"), 0) + 1
    return counts


F17 = "F17-reduce-swallows-stop-error-of-a-retired-combiner"


class C14:
    id = "C14"
    level = "fault_enumeration"
    quick_runs = 120
    quick_budget_s = 150
    thorough_budget_s = 900
    san = False
    MAX_OCC = 3
    rule = ("for each seeded program (flat; with nested_ children 1-3 deep; feedback; structural and reference consumers) a fault-free run lists every "
            "fault point = (vocabulary node id x phase in {start, evaluate, stop} x occurrence <= 3); EVERY single fault point is then injected in its "
            "own run, plus seeded pairs (evaluate-fault then stop-fault of another node; start-fault then stop-fault of an already started node; two "
            "stop faults), each under cleanup_on_error on/off and with/without a request_stop at a seeded cycle. evaluations = injected runs; "
            "non-trivial = the planned fault actually fired; distinct = distinct (program, fault plan, configuration)")
    exhaustive_note = "per program the single-fault enumeration over (node x phase x occurrence<=3) is complete; programs, pairs and configurations are sampled"
    assumptions = ["the fault model is an exception thrown by user code of a node (start/eval/stop); bad_alloc inside the engine's own bookkeeping is out of scope",
                   "a stop fault raised during the release of an executor (cleanup_on_error=false) cannot reach the caller and is not asserted to"]

    def gen_dynamic(self, rng, seed):
        """map_ / switch_ / reduce_ children alive at the fault time (mode higher_order)"""
        end = rng.choice((8, 12))
        writers = [ho.gen_tsd_writer(rng, 1, end, pool=rng.choice((3, 5))), ho.gen_ts_writer(rng, 2, end, values=[1, 2], dense=True),
                   ho.gen_ts_writer(rng, 3, end, dense=True)]
        stmts = ["map 10 fn=%s d=1" % rng.choice(("Accum", "Chain")), "cons 11 10"]
        if rng.random() < 0.7:
            stmts += ["switch 20 key=2 cases=1:%s,2:%s x=3" % (rng.choice(("Accum", "AddOne")), rng.choice(("Accum", "Chain"))), "cons 21 20"]
        if rng.random() < 0.5:
            stmts += ["reduce 30 fn=AddIntsL c=1", "cons 31 30"]       # combiner graphs with lifecycle hooks and fault points
        return dict(kind="dynamic", sc=dict(window=(0, end), writers=writers, stmts=stmts), seed=seed)

    def gen(self, seed):
        rng = random.Random(seed)
        if rng.random() < 0.35:
            return self.gen_dynamic(rng, seed)
        prog = gen_dataflow.gen_program(rng.getrandbits(48), size=rng.randint(2, 12), allow=dict(ite=rng.random() < 0.5))
        s, e = prog["window"]
        prog["window"] = (s, min(e, s + 14))
        return dict(prog=prog, seed=seed)

    def one(self, prog, faults, cleanup, stopat, fresh):
        if isinstance(prog, dict) and "stmts" in prog:
            sc = copy.deepcopy(prog)
            sc["stmts"] = list(sc["stmts"]) + ["fault %d %s %d" % tuple(f) for f in faults]
            sc["options"] = dict(cleanup_on_error=1 if cleanup else 0)
            text = ho.emit(sc)
            res = runner.run_fresh(text, san=self.san) if fresh else runner.run(text, san=self.san)
            return text, res
        p = copy.deepcopy(prog)
        p["faults"] = list(faults)
        p["options"] = dict(cleanup_on_error=1 if cleanup else 0, log_ne=1)
        if stopat is not None:
            p["stopat"] = stopat
        text = dataflow.emit(p)
        res = runner.run_fresh(text, san=self.san) if fresh else runner.run(text, san=self.san)
        return text, res

    def run(self, case, fresh=False):
        dynamic = case.get("kind") == "dynamic"
        prog = ho.normalise(case["sc"]) if dynamic else dataflow.normalise(case["prog"])
        rng = random.Random(case.get("seed", 0) ^ 0x5EED)
        plans = case.get("plans")
        text0, base = self.one(prog, [], True, None, fresh)
        if not base.ok:
            return Outcome(harness_error="harness status=%s signal=%s timeout=%s tail=%s" % (base.status, base.signal, base.timeout, base.raw[-300:]), sample=text0)
        for e in base.events:
            if e["k"] in ("wire_error", "harness_error"):
                return Outcome(harness_error="%s: %s" % (e["k"], e.get("what")), sample=text0)
        v, info = ol.check_lifecycle(base.events, True)
        if v:
            return Outcome(violation=dict(clause="fault_free:" + v[0], detail=v[1]), digest=base.digest, sample=dict(scenario=text0))
        if plans is None and dynamic:
            # fault points of the library functions inside dynamic children: function kind x phase x occurrence
            counts = {}
            fid = {"Accum": 7002, "AddOne": 7001, "AddIntsL": 7006}
            for e in base.events:
                if e["k"] == "h" and e["f"] in fid:
                    ph = {"ev": "eval", "start": "start", "stop": "stop"}[e["e"]]
                    if e["f"] == "AddOne" and ph != "eval":
                        continue
                    counts[(fid[e["f"]], ph)] = counts.get((fid[e["f"]], ph), 0) + 1
            singles = [[(i, ph, occ)] for (i, ph), n in sorted(counts.items()) for occ in range(1, min(n, 4) + 1)]
            plans = [dict(faults=f, cleanup=rng.random() < 0.6, stopat=None) for f in singles]
            evals = [f[0] for f in singles if f[0][1] == "eval"]
            stops = [f[0] for f in singles if f[0][1] == "stop"]
            for _ in range(min(6, len(singles))):
                if evals and stops:
                    plans.append(dict(faults=[rng.choice(evals), rng.choice(stops)], cleanup=rng.random() < 0.6, stopat=None))
        if plans is None:
            pts = fault_points(base.events)
            singles = []
            for (i, ph), n in sorted(pts.items()):
                for occ in range(1, min(n, self.MAX_OCC) + 1):
                    singles.append([(i, ph, occ)])
            evals = [p[0] for p in singles if p[0][1] == "eval"]
            stops = [p[0] for p in singles if p[0][1] == "stop"]
            starts = [p[0] for p in singles if p[0][1] == "start"]
            pairs = []
            for _ in range(min(8, len(singles))):
                r = rng.random()
                if r < 0.5 and evals and stops:
                    pairs.append([rng.choice(evals), rng.choice(stops)])
                elif r < 0.8 and starts and stops:
                    pairs.append([rng.choice(starts), rng.choice(stops)])
                elif len(stops) >= 2:
                    pairs.append(rng.sample(stops, 2))
            cycles = [e["t"] for e in base.events if e["k"] == "cyc" and e["g"] == 0]
            plans = []
            for f in singles + pairs:
                cleanup = rng.random() < 0.6
                stopat = rng.choice(cycles) if cycles and rng.random() < 0.2 else None
                plans.append(dict(faults=f, cleanup=cleanup, stopat=stopat))
            # each single start/stop fault also under the other cleanup setting
            for f in singles:
                if f[0][1] != "eval" or rng.random() < 0.3:
                    plans.append(dict(faults=f, cleanup=rng.random() < 0.5, stopat=None))
        stats = dict(fault_points=len({tuple(p["faults"][0]) for p in plans if len(p["faults"]) == 1}), injected_runs=0,
                     faults_fired={"F1_start": 0, "F1_eval": 0, "F1_stop": 0}, pair_plans=sum(1 for p in plans if len(p["faults"]) > 1),
                     cleanup_off_runs=0, request_stop_runs=0, lifecycle_events=info["lifecycle_events"], nested_graph_instances=info["graphs"] - 1,
                     probe_stop_fault_after_eval_fault=0, probe_fault_inside_nested_child=0, probe_dynamic_children_alive=1 if dynamic else 0,
                     simulated_time_us=prog["window"][1] - prog["window"][0])
        viol = None
        sample_plan = None
        digests = [base.digest]
        known_f17 = None
        for plan in plans:
            text, res = self.one(prog, plan["faults"], plan["cleanup"], plan["stopat"], fresh)
            if not res.ok:
                # a crash of the engine while handling a fault is a violation of the owning property, with the replay
                if res.timeout:
                    return Outcome(harness_error="timeout under fault plan %s" % plan, sample=text)
                viol = dict(clause="crash_under_fault", detail="harness exited with status=%s signal=%s under plan %s; tail: %s" % (res.status, res.signal, plan, res.raw[-400:]))
                sample_plan = (plan, text)
                break
            stats["injected_runs"] += 1
            stats["cleanup_off_runs"] += 0 if plan["cleanup"] else 1
            stats["request_stop_runs"] += 1 if plan["stopat"] is not None else 0
            digests.append(res.digest)
            v, inf = ol.check_lifecycle(res.events, plan["cleanup"])
            if inf:
                for f in inf["fired"]:
                    stats["faults_fired"]["F1_" + f["phase"]] += 1
                    if f["root_owner"] is not None and (f["id"] >= 10000 or dynamic):
                        stats["probe_fault_inside_nested_child"] += 1
                ph = [f["phase"] for f in inf["fired"]]
                if "eval" in ph and "stop" in ph and ph.index("eval") < ph.index("stop"):
                    stats["probe_stop_fault_after_eval_fault"] += 1
            if v and v[0] == "error_swallowed" and dynamic and plan["faults"] and all(f[0] == 7006 and f[1] == "stop" for f in plan["faults"]):
                # known finding F17: reduce_ stops a combiner graph it retires while evaluating through stop_combiner_noexcept
                known_f17 = "plan %s: %s" % (plan, v[1])
                continue
            if v and v[0] == "wrong_error" and dynamic and "first fault was 'injected fault id=7006 phase=stop" in v[1]:
                # the same finding: the swallowed stop error of a retired combiner came first, a later fault is what the caller sees
                known_f17 = "plan %s: %s" % (plan, v[1][:300])
                continue
            if v:
                viol = dict(clause=v[0], detail="plan %s: %s" % (plan, v[1]))
                sample_plan = (plan, text)
                break
        nontrivial = sum(stats["faults_fired"].values()) > 0
        sample = dict(scenario=text0, plans=plans[:6])
        if not viol and known_f17:
            return Outcome(violation=dict(clause="known_class:F17", detail=known_f17, known=F17), stats=stats,
                           digest=runner.h64(digests) and "%016x" % runner.h64(digests), nontrivial=nontrivial, sample=sample, shape=runner.h64(text0, len(plans)))
        if viol:
            sample = dict(scenario=sample_plan[1], plan=sample_plan[0])
        return Outcome(violation=viol, stats=stats, digest=runner.h64(digests) and "%016x" % runner.h64(digests), nontrivial=nontrivial, sample=sample,
                       shape=runner.h64(text0, len(plans)))

    def shrink(self, case):
        # first pin the failing plan, then shrink the program
        if case.get("kind") == "dynamic":
            if case.get("plans") is None or len(case["plans"]) > 1:
                base = self.run(case)
                if base.violation and isinstance(base.sample, dict) and "plan" in base.sample:
                    yield dict(case, plans=[base.sample["plan"]])
                return
            sc = ho.normalise(case["sc"])
            for i, w in enumerate(sc["writers"]):
                for off in sorted(w["script"]):
                    if len(w["script"]) > 1:
                        q = copy.deepcopy(sc)
                        del q["writers"][i]["script"][off]
                        yield dict(case, sc=q)
            return
        prog = dataflow.normalise(case["prog"])
        if case.get("plans") is None or len(case["plans"]) > 1:
            base = self.run(case)
            if base.violation and isinstance(base.sample, dict) and "plan" in base.sample:
                yield dict(prog=case["prog"], seed=case.get("seed", 0), plans=[base.sample["plan"]])
            return
        for q in dataflow.shrink_program(prog):
            yield dict(prog=q, seed=case.get("seed", 0), plans=case["plans"])


PROPERTY = C14()
