"""C09 - a sub-graph behaves the same inlined or nested, at any depth."""
import copy
import random

import dataflow
import gen_dataflow
import oracle_dataflow as od
import runner
from framework import Outcome

HOWS = ("inline", "nested", "nested2", "nested3")
LIB = ("SgArith", "SgAccum", "SgSrc", "SgTimer", "SgPass", "SgFb", "SgOwn", "SgSched", "SgSchedV", "SgDeep")

F1 = "F1-deep-forwarding-first-bind-marks-invalid-output-modified"
F2 = "F2-nested-start-samples-all-unchecked-boundary-consumer"
F3 = "F3-nested-pass-through-of-reference-misses-retarget-back"


def streams(events, ids):
    out = {i: [] for i in ids}
    for e in events:
        if e["k"] == "rec" and e["id"] in out:
            out[e["id"]].append((e["t"], e.get("v")))
    return out


def model_streams(prog, ids, quirks):
    m = dataflow.Model(copy.deepcopy(prog), quirks=quirks)
    _, events = m.run()
    return streams(events, ids)


class C09:
    id = "C09"
    level = "exploration"
    quick_runs = 1200
    quick_budget_s = 150
    thorough_budget_s = 900
    san = False
    rule = ("a library of 10 sub-graph definitions (stateless arithmetic, internal stateful node, internal scripted source, internal self-scheduling "
            "ticker incl. consecutive MIN_TD steps, pass-through output, feedback inside, node driven only by its own schedule with a passive boundary "
            "input, scheduler-scripted node with Unchecked / Valid boundary input, nested-in-sub-graph) parameterised by scalars; each chosen definition "
            "is wired four ways in the same run against the same input port - wire<G> (inline), nested_<G>, nested_<Wrap<G>>, nested_<Wrap<Wrap<G>>> - "
            "with inputs that are sources, compute nodes, never-ticking ports (idle parent: only child timers drive the run) and references. Oracle: "
            "recorder streams (Valid and Unchecked recorders) identical across the four variants and equal to the reference interpreter; every child "
            "graph evaluation inside its parent node's bracket at the parent's time. non-trivial = some variant stream has >= 2 ticks; distinct = "
            "distinct (definitions, scalars, input shape, stream times)")
    assumptions = ["differences that match a listed known finding exactly (same sub-graph kind, same variant, engine stream equal to the finding-aware model) are reported as KNOWN-FINDING"]

    def gen(self, seed):
        rng = random.Random(seed)
        g = gen_dataflow.Gen(rng, size=rng.randint(1, 6), allow=dict(sub=False, ite=True, feedback=False, timer1=False))
        for _ in range(rng.randint(1, 3)):
            g.add_source()
        if rng.random() < 0.3:
            # a port that never ticks: the parent is otherwise idle
            i = g.nid()
            g.scripts[i] = {}
            g.add(dict(name=g.name(), kind="source", args=[], id=i))
        while len(g.nodes) < g.size:
            g.add_compute()
        prog = g.build()
        prog["sinks"] = []
        inputs = [p for p in g.ports if not g.is_ref(p) or rng.random() < 0.0]
        sid = 2000
        rid = 700
        groups = []
        for _ in range(rng.randint(1, 2)):
            G = rng.choice(LIB)
            x = rng.choice(inputs)
            p, q = rng.randint(1, 4), rng.choice((1, 1, 2, 3))
            script = gen_dataflow.gen_script(rng, prog["window"][1], dense=rng.random() < 0.3)
            tscript = gen_dataflow.gen_tscript(rng, in_start=rng.random() < 0.7)
            grp = dict(g=G, variants=[])
            for how in HOWS:
                nm = "v%d" % sid
                if G == "SgSrc":
                    prog["scripts"][sid * 10 + 1] = dict(script)
                if G in ("SgSched", "SgSchedV"):
                    prog["tscripts"][sid * 10 + 1] = copy.deepcopy(tscript)
                prog["nodes"].append(dict(name=nm, kind=how, g=G, args=[x], p=p, q=q, id=sid))
                prog["sinks"].append(dict(kind="rec", id=rid, port=nm))
                prog["sinks"].append(dict(kind="recu", id=rid + 1, port=nm))
                grp["variants"].append(dict(how=how, name=nm, rec=rid, recu=rid + 1))
                sid += 1
                rid += 2
            groups.append(grp)
        return dict(prog=prog, groups=groups)

    def run(self, case, fresh=False):
        prog = dataflow.normalise(case["prog"])
        text = dataflow.emit(prog)
        res = runner.run_fresh(text, san=self.san) if fresh else runner.run(text, san=self.san)
        if not res.ok:
            return Outcome(harness_error="harness status=%s signal=%s timeout=%s tail=%s" % (res.status, res.signal, res.timeout, res.raw[-300:]), sample=text)
        for e in res.events:
            if e["k"] in ("wire_error", "harness_error"):
                return Outcome(harness_error="%s: %s" % (e["k"], e.get("what")), sample=text)
        sample = dict(scenario=text, log_head=res.raw[:1000])
        ran = [e for e in res.events if e["k"] == "ran"]
        if not ran or ran[0]["run"] != "ok":
            return Outcome(violation=dict(clause="run_threw", detail=ran[0].get("what") if ran else "no ran event"), digest=res.digest, sample=sample)
        names = {n["name"] for n in prog["nodes"]}
        sink_ids = {s["id"] for s in prog["sinks"]}
        ids = sorted(sink_ids)
        S = streams(res.events, ids)
        M = model_streams(prog, ids, quirks=False)
        Q = None
        v = None
        known = None
        ticks = 0
        compared = 0
        v0, _ = od.check_eval_order(res.events)
        if v0:
            v = v0
        for grp in case.get("groups", []):
            if v:
                break
            vs = [x for x in grp["variants"] if x["name"] in names and x["rec"] in sink_ids and x["recu"] in sink_ids]
            for x in vs:
                for kind in ("rec", "recu"):
                    sid = x[kind]
                    compared += 1
                    ticks = max(ticks, len(S[sid]))
                    if S[sid] == M[sid]:
                        continue
                    # differs from the specification: is it exactly a listed finding?
                    if Q is None:
                        Q = model_streams(prog, ids, quirks=True)
                    extra = [ev for ev in S[sid] if ev not in M[sid]]
                    missing = [ev for ev in M[sid] if ev not in S[sid]]
                    if grp["g"] == "SgSched" and x["how"] != "inline" and S[sid] == Q[sid]:
                        known = F2
                        continue
                    if kind == "recu" and x["how"] in ("nested2", "nested3") and not missing and len(extra) == 1 and extra[0][1] is None:
                        known = F1
                        continue
                    ref = [y for y in vs if y["how"] == "inline"]
                    inline_stream = S[ref[0][kind]] if ref else None
                    v = ("inline_nested_differ" if inline_stream is not None and inline_stream != S[sid] else "stream_vs_model",
                         "%s wired %s, %s recorder: stream %s; inline variant %s; reference model %s" % (grp["g"], x["how"], kind, S[sid][:10], (inline_stream or [])[:10], M[sid][:10]))
                    break
                if v:
                    break
        cycles = [e["t"] for e in res.events if e["k"] == "cyc" and e["g"] == 0]
        stats = dict(variant_streams_compared=compared, cycles=len(cycles), child_graph_cycles=sum(1 for e in res.events if e["k"] == "cyc" and e["g"] > 0),
                     simulated_time_us=prog["window"][1] - prog["window"][0],
                     probe_child_driven_cycles=sum(1 for t in cycles if not any(e["k"] == "ev" and e["t"] == t and e["id"] < 1000 for e in res.events)))
        viol = None
        if v:
            viol = dict(clause=v[0], detail=v[1])
        elif known:
            viol = dict(clause="known", detail=known, known=known)
        return Outcome(violation=viol, stats=stats, digest=res.digest, nontrivial=ticks >= 2, sample=sample,
                       shape=runner.h64(dataflow.shape_key(prog), [sorted(S[i]) for i in ids][:8]))

    F3_SCENARIO = ("mode higher_order\nwindow 0 10\nwriter 1 shape=TS\nwscript 1 0|d=5\nwriter 2 shape=TS\nwscript 2 9|d=7\n"
                   "writer 3 shape=TSBool\nwscript 3 1|d=true;;3|d=false;;5|d=true\nite 10 c=3 a=1 b=2\ncons 11 10\nnpass 20 10\ncons 21 20\n")

    def demonstrate_known(self, k):
        """F3 is outside the generated vocabulary (references crossing a nested boundary are kept out of the dataflow
        programs): one fixed scenario re-demonstrates it on every run - a reference retargeted A -> (never-valid B) -> A is
        read directly (consumer 11, ticks at the retarget back) and below a nested pass-through (consumer 21, does not)."""
        if k["id"] != F3:
            return False
        res = runner.run(self.F3_SCENARIO, san=self.san)
        t11 = [e["t"] for e in res.events if e["k"] == "C" and e["id"] == 11 and e["i"] is not None]
        t21 = [e["t"] for e in res.events if e["k"] == "C" and e["id"] == 21 and e["i"] is not None]
        return 5 in t11 and 5 not in t21 and 1 in t21

    def shrink(self, case):
        for q in dataflow.shrink_program(dataflow.normalise(case["prog"])):
            yield dict(prog=q, groups=case.get("groups", []))


PROPERTY = C09()
