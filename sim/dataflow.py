"""mode dataflow: program representation, scenario text emission, and the executable reference interpreter.

A program is a dict:
  nodes:   list of node dicts in a topological order of the *program's own* dependency relation
           {name, kind, args[], id, ...kind specific...}; an arg prefixed with '~' is wired through passive(port)
  sinks:   list of {kind: rec|recu|err|gsink, id, port}
  binds:   list of (handle name, port name) for feedback / delayed handles
  scripts: {source id: {offset: value}}     tscripts: {timer id: {k: [ops]}}
  window:  (start_off, end_off)             faults: [(id, phase, occ)]     options: {k: v}
The reference interpreter implements DESIGN appendix B: per engine cycle, visit nodes in topological order, apply the
activation rule, apply the node's arithmetic. It predicts which user code runs when, on which values, and what it writes.
"""
import copy

MODP = 1000003
MIX_W = (3, 5, 7)
MIX_M = (1000, 20000, 400000)

SUBGRAPHS = ("SgArith", "SgAccum", "SgSrc", "SgTimer", "SgPass", "SgFb", "SgOwn", "SgSched", "SgSchedV", "SgDeep", "SgFail")
# SgCtx (imports a context port) is only generated where a `ctxscope` statement precedes it (C06)


def norm(v):
    return v % MODP


# ---------------------------------------------------------------------------------------------- scenario text
def emit_node(n):
    k = n["kind"]
    kv = []
    if k in ("feedback",):
        if n.get("init") is not None:
            kv.append("init=%d" % n["init"])
        return "%s = feedback %s" % (n["name"], " ".join(kv))
    if k == "delayed":
        return "%s = delayed" % n["name"]
    parts = [n["name"], "=", k]
    if k in ("inline", "nested", "nested2", "nested3", "tryexcept"):
        parts.append(n["g"])
    parts += n.get("args", [])
    for key in ("valid", "op", "count", "period", "value", "delay", "p", "q", "all", "eid", "ty", "at", "k"):
        if key in n and n[key] is not None:
            parts.append("%s=%s" % (key, n[key]))
    parts.append("id=%d" % n.get("id", 0))
    return " ".join(parts)


def emit(prog, order=None, extra=()):
    """Scenario text. `order` optionally permutes the wiring statements (list of indices into prog['stmts'])."""
    lines = ["mode dataflow", "window %d %d" % tuple(prog["window"])]
    for sid in sorted(prog.get("scripts", {})):
        sc = prog["scripts"][sid]
        lines.append("script %d %s" % (sid, ",".join("%d:%d" % (o, sc[o]) for o in sorted(sc))))
    for tid in sorted(prog.get("tscripts", {})):
        ts = prog["tscripts"][tid]
        lines.append("tscript %d %s" % (tid, ";".join("%d:%s" % (k, ",".join(ts[k])) for k in sorted(ts) if ts[k])))
    stmts = statements(prog)
    if order is None:
        order = range(len(stmts))
    for i in order:
        lines.append(stmts[i])
    for f in prog.get("faults", []):
        lines.append("fault %d %s %d" % tuple(f))
    opts = prog.get("options", {})
    if opts:
        lines.append("option " + " ".join("%s=%s" % (k, opts[k]) for k in sorted(opts)))
    for k in sorted(prog.get("gs", {})):
        lines.append("gs %s %d" % (k, prog["gs"][k]))
    if prog.get("clock"):
        lines.append("seed %d" % prog["clock"].get("seed", 0))
        lines.append("clock stall_rate=%s stall_us=%d coarse=%d" % (prog["clock"].get("stall_rate", 0), prog["clock"].get("stall_us", 0), prog["clock"].get("coarse", 0)))
    if prog.get("stopat") is not None:
        lines.append("stopat %d" % prog["stopat"])
    lines += list(extra)
    return "\n".join(lines) + "\n"


def statements(prog):
    """Wiring statements in the program's canonical (topological) order: nodes, then binds, then sinks."""
    out = [emit_node(n) for n in prog["nodes"]]
    out += ["bind %s %s" % (h, p) for h, p in prog.get("binds", [])]
    for s in prog.get("sinks", []):
        out.append("%s %d %s" % (s["kind"], s["id"], s["port"]) + ("".join(" %s=%d" % (k, s[k]) for k in ("depth", "values") if k in s) if s["kind"] == "err" else ""))
    return out


def stmt_deps(prog):
    """For each statement index: the set of statement indices that must be wired before it (port availability).
    feedback/delayed handles make their *readers* independent of the bound producer."""
    idx = {}
    stmts = []
    for i, n in enumerate(prog["nodes"]):
        idx[n["name"]] = i
    deps = []
    for n in prog["nodes"]:
        d = set()
        for a in n.get("args", []):
            a = a.lstrip("~")
            if a in idx:
                d.add(idx[a])
        deps.append(d)
    base = len(prog["nodes"])
    for h, p in prog.get("binds", []):
        deps.append({idx[h], idx[p.lstrip("~")]})
    for s in prog.get("sinks", []):
        deps.append({idx[s["port"].lstrip("~")]})
    return deps


# ---------------------------------------------------------------------------------------------- expansion
def expand_subgraph(n):
    """Inline expansion of a sub-graph call into primitive nodes (the harness derives ids the same way)."""
    g, x, p, q, i = n["g"], n["args"][0], n.get("p", 1), n.get("q", 1), n["id"]
    nm = n["name"]
    if g == "SgArith":
        return [dict(name=nm + ".a", kind="c1", args=[x], valid="V", op=0, id=i * 10 + 1),
                dict(name=nm, kind="c2", args=[nm + ".a", x], valid="VV", op=p % 3, id=i * 10 + 2)]
    if g == "SgAccum":
        return [dict(name=nm + ".a", kind="accum", args=[x], id=i * 10 + 1),
                dict(name=nm, kind="c1", args=[nm + ".a"], valid="V", op=0, id=i * 10 + 2)]
    if g == "SgSrc":
        return [dict(name=nm + ".s", kind="source", args=[], id=i * 10 + 1),
                dict(name=nm, kind="c2", args=[x, nm + ".s"], valid="UV", op=0, id=i * 10 + 2)]
    if g == "SgTimer":
        return [dict(name=nm + ".t", kind="ticker", args=[], count=p, period=q, id=i * 10 + 1),
                dict(name=nm, kind="c2", args=[x, nm + ".t"], valid="UV", op=0, id=i * 10 + 2)]
    if g == "SgPass":
        return [dict(name=nm, kind="alias", args=[x], id=0)]
    if g == "SgFb":
        return [dict(name=nm + ".fb", kind="feedback", init=p, id=0),
                dict(name=nm, kind="c2", args=[x, "~" + nm + ".fb"], valid="VV", op=0, id=i * 10 + 1),
                dict(name=nm + ".bind", kind="_bind", handle=nm + ".fb", port=nm)]
    if g == "SgOwn":
        return [dict(name=nm + ".t", kind="ticker", args=[], count=p, period=q, id=i * 10 + 1),
                dict(name=nm, kind="sample", args=[nm + ".t", x], id=i * 10 + 2)]
    if g == "SgSched":
        # engine behaviour (nested_bindings.h schedule_sampled_input_consumers): in a *nested* child, a node whose
        # validity gate is empty and that consumes a boundary input is sampled once when the child starts
        return [dict(name=nm, kind="timer1", args=[x], id=i * 10 + 1, start_sample=n["kind"] != "inline")]
    if g == "SgSchedV":
        return [dict(name=nm, kind="timer1v", args=[x], id=i * 10 + 1)]
    if g == "SgDeep":
        inner = dict(name=nm, kind="nested", g="SgTimer", args=[nm + ".a"], p=p, q=q, id=i * 10 + 2)
        return [dict(name=nm + ".a", kind="c1", args=[x], valid="V", op=0, id=i * 10 + 1)] + expand_subgraph(inner)
    if g == "SgCtx":
        # args = [x, <the ctxscope pseudo-node>]: c1 over the declared input and c1 with the *same scalars* over the context port
        cx = n["args"][1]
        return [dict(name=nm + ".a", kind="c1", args=[x], valid="V", op=0, id=i * 10 + 1),
                dict(name=nm + ".b", kind="c1", args=[cx], valid="V", op=0, id=i * 10 + 1),
                dict(name=nm, kind="c2", args=[nm + ".a", nm + ".b"], valid="VV", op=p % 3, id=i * 10 + 2)]
    if g == "SgFailT":
        # fault target first, then an independent scheduler-scripted sibling (also driven by x), then both combined
        return [dict(name=nm + ".a", kind="c1", args=[x], valid="V", op=0, id=i * 10 + 1),
                dict(name=nm + ".t", kind="timer1", args=[x], id=i * 10 + 2, start_sample=True),       # (a child graph: sampled at start, F2)
                dict(name=nm, kind="c2", args=[nm + ".a", nm + ".t"], valid="UU", op=0, id=i * 10 + 3)]
    if g == "SgFail":
        return [dict(name=nm + ".a", kind="c1", args=[x], valid="V", op=0, id=i * 10 + 1),
                dict(name=nm + ".b", kind="accum", args=[nm + ".a"], id=i * 10 + 2),
                dict(name=nm, kind="c1", args=[nm + ".b"], valid="V", op=0, id=i * 10 + 3)]
    raise ValueError(g)


def expand(prog):
    nodes = []
    binds = list(prog.get("binds", []))
    for n in prog["nodes"]:
        if n["kind"] in ("inline", "nested", "nested2", "nested3"):
            for e in expand_subgraph(n):
                if e["kind"] == "_bind":
                    binds.append((e["handle"], e["port"]))
                else:
                    nodes.append(e)
        elif n["kind"] == "tryexcept":
            for e in expand_subgraph(n):
                e = dict(e)
                e["try_group"] = n["name"]
                e["try_eid"] = n.get("eid", 0)
                nodes.append(e)
        elif n["kind"] == "ctxscope":
            nodes.append(dict(name=n["name"], kind="alias", args=[n["args"][0]], id=0))     # no runtime node: names its port
        else:
            nodes.append(n)
    return nodes, binds


# ---------------------------------------------------------------------------------------------- the model
class PortState:
    __slots__ = ("value", "valid", "lmt")

    def __init__(self):
        self.value = None
        self.valid = False
        self.lmt = None


class Model:
    """Reference interpreter. run() returns (cycles, events) where events are dicts shaped like the harness log:
       {"k":"ev","id","t","in"}, {"k":"out","id","t","v"}, {"k":"rec","id","t","v"}, {"k":"errtick","id","t"}"""

    def __init__(self, prog, quirks=True):
        self.prog = prog
        self.quirks = quirks
        self.nodes, self.binds = expand(prog)
        self.start, self.end = prog["window"]
        self.scripts = prog.get("scripts", {})
        self.tscripts = prog.get("tscripts", {})
        self.ports = {}
        self.alias = {}
        self.pending = {}      # node name -> set of wake-up times
        self.state = {}
        self.events = []
        self.requests = []     # (requesting id, made at, for time)
        self.fb_of = {}        # producer port name -> [feedback names]
        self.capture = {}      # node name -> error rec id
        self.faults = list(prog.get("faults", []))
        self.counts = {}
        self.failed = None     # (id, phase, t) of an uncaptured fault: the run ends there
        self.stop_requested = None
        for n in self.nodes:
            self.ports[n["name"]] = PortState()
            self.pending[n["name"]] = set()
        for h, p in self.binds:
            p = p.lstrip("~")
            kind = self.node(h)["kind"]
            if kind == "delayed":
                self.alias[h] = p
            else:
                self.fb_of.setdefault(p, []).append(h)
        for s in prog.get("sinks", []):
            if s["kind"] == "err":
                self.capture[self.resolve(s["port"])] = s["id"]
        self.ite_sel = {}

    def node(self, name):
        for n in self.nodes:
            if n["name"] == name:
                return n
        raise KeyError(name)

    def resolve(self, name):
        name = name.lstrip("~")
        seen = 0
        while True:
            if name in self.alias:
                name = self.alias[name]
            else:
                n = self._by_name.get(name) if hasattr(self, "_by_name") else None
                if n is None:
                    self._by_name = {x["name"]: x for x in self.nodes}
                    n = self._by_name.get(name)
                if n is not None and n["kind"] == "alias":
                    name = n["args"][0].lstrip("~")
                else:
                    return name
            seen += 1
            if seen > 100:
                raise ValueError("alias cycle")

    # --- views of a port as an input sees it at time t
    def view(self, name, t):
        name = self.resolve(name)
        n = self._by_name[name]
        if n["kind"] == "ite":
            return self.ite_view(n, t)
        p = self.ports[name]
        return (p.valid, p.lmt == t, p.value)

    def ite_view(self, n, t):
        sel = self.ite_sel.get(n["name"])
        if sel is None:
            return (False, False, None)
        tgt, since, old_ticked = sel
        valid, mod, val = self.view(tgt, t)
        # sampled rebind: the link reads modified at the retarget time when the new target is valid ("only a rebind to a
        # live target records modified and samples", linking_strategies.rst). Engine behaviour additionally modelled
        # (flag old_ticked): when the *previous* target ticked earlier in the very cycle of the retarget, its
        # notification already reached the consumer's link, so the consumer is woken and reads modified.
        if since == t and (valid or (old_ticked and self.quirks)):
            mod = True
        return (valid, mod, val)

    def fault_hit(self, nid, phase):
        if not self.faults or not nid:
            return False
        c = self.counts.get((nid, phase), 0) + 1
        self.counts[(nid, phase)] = c
        for f in self.faults:
            if f[0] == nid and f[1] == phase and f[2] == c:
                return True
        return False

    def write(self, n, t, v):
        p = self.ports[n["name"]]
        p.value, p.valid, p.lmt = v, True, t
        if n.get("id"):
            self.events.append({"k": "out", "id": n["id"], "t": t, "v": v})

    def request(self, n, t, when, in_start):
        ok = (when >= t) if in_start else (when > t)
        self.requests.append({"id": n["id"], "t": t, "when": when, "in_start": in_start, "accepted": ok})
        if ok:
            self.pending[n["name"]].add(when)

    def mix(self, views, op):
        acc = 0
        sumv = 0
        first_mod = -1
        for i, (valid, mod, val) in enumerate(views):
            acc += MIX_W[i] * (val if valid else -1)
            if mod:
                acc += MIX_M[i]
                if first_mod < 0 and valid:
                    first_mod = val
            if valid:
                sumv += val
        if op == 1:
            return sumv % 2 == 0, norm(acc)
        if op == 2:
            return True, (first_mod if first_mod >= 0 else norm(acc))
        return True, norm(acc)

    def ins(self, views):
        return [[1 if v else 0, 1 if m else 0, val if v else None] for (v, m, val) in views]

    def do_start(self):
        t = self.start
        for n in self.nodes:
            k = n["kind"]
            nid = n.get("id", 0)
            if k in ("source", "ticker", "c1", "c2", "c3", "sample", "samplemid", "conv", "sshot", "accum", "timer0", "timer1", "timer1p", "timer1v", "suml", "sumb"):
                if self.fault_hit(nid, "start"):
                    self.failed = (nid, "start", t)
                    return
            if k == "source":
                sc = self.scripts.get(nid, {})
                if sc:
                    self.request(n, t, min(sc), True)
            elif k == "sshot":
                self.request(n, t, n["at"], True)         # asked for in start() through the stateless SingleShotScheduler
            elif k == "ticker":
                self.state[n["name"]] = 0
                self.pending[n["name"]].add(t)
            elif k == "const":
                self.pending[n["name"]].add(t + n.get("delay", 0) if n.get("delay") else t)
            elif k == "accum":
                self.state[n["name"]] = 0
            elif k in ("timer0", "timer1", "timer1p", "timer1v"):
                self.state[n["name"]] = 0
                self.timer_ops(n, 0, t, True)
                if n.get("start_sample") and self.quirks:
                    self.pending[n["name"]].add(t)
            elif k == "ite":
                # a static node with an active REF input receives one start-up sample (authoring_nodes.rst)
                self.pending[n["name"]].add(t)
            elif k == "feedback":
                if n.get("init") is not None:
                    self.pending[n["name"]].add(t)
                    self.state.setdefault(n["name"], []).append((t, n["init"]))
        for s in self.prog.get("sinks", []):
            if s["kind"] == "rec" and self.fault_hit(s["id"], "start"):
                self.failed = (s["id"], "start", t)
                return

    def timer_ops(self, n, k, t, in_start):
        for op in self.tscripts.get(n["id"], {}).get(k, []):
            body = op.split("#")[0]
            if body[0] == "+":
                self.request(n, t, t + int(body[1:]), in_start)
            elif body[0] == "@":
                self.request(n, t, int(body[1:]), in_start)
            else:
                raise ValueError("model: timer op %r is outside the no-cancel subset" % op)

    def next_time(self):
        best = None
        for s in self.pending.values():
            for x in s:
                if best is None or x < best:
                    best = x
        return best

    def run(self, max_cycles=100000):
        self._by_name = {x["name"]: x for x in self.nodes}
        self.do_start()
        cycles = []
        if self.failed:
            return cycles, self.events
        if self.prog.get("stopat") is not None:
            self.pending.setdefault("__stopat", set())
            if self.prog["stopat"] >= self.start:
                self.pending["__stopat"].add(self.prog["stopat"])
        while True:
            t = self.next_time()
            if t is None or t >= self.end or len(cycles) >= max_cycles:
                break
            if t < self.start:
                # a wake-up before the window can never be honoured; drop it
                for s in self.pending.values():
                    s.discard(t)
                continue
            cycles.append(t)
            self.cycle(t)
            if self.failed:
                break
            if t in self.pending.get("__stopat", ()):
                self.pending["__stopat"].discard(t)
                break
        return cycles, self.events

    def run_user(self, n, t, views, body, flags=True):
        """user code of node n runs at t: log it, apply fault plan, then the body."""
        nid = n.get("id", 0)
        self.events.append({"k": "ev", "id": nid, "t": t, "in": self.ins(views) if flags else [[1, None, val] for (_, _, val) in views]})
        if self.fault_hit(nid, "eval"):
            grp = n.get("try_group")
            if n["name"] in self.capture:
                self.events.append({"k": "errtick", "id": self.capture[n["name"]], "t": t})
                return
            if grp is not None:
                self.events.append({"k": "errtick", "id": n.get("try_eid", 0), "t": t})
                self.try_failed = grp
                return
            self.failed = (nid, "eval", t)
            return
        body()

    def cycle(self, t):
        self.try_failed = None
        for n in self.nodes:
            if self.failed:
                return
            if n.get("try_group") is not None and self.try_failed == n["try_group"]:
                # the wrapped child graph's evaluation was abandoned for this cycle
                self.pending[n["name"]].discard(t)
                continue
            k = n["kind"]
            name = n["name"]
            due = t in self.pending[name]
            self.pending[name].discard(t)
            if k == "source":
                if due:
                    def body(n=n):
                        sc = self.scripts.get(n["id"], {})
                        if t in sc:
                            self.write(n, t, sc[t])
                            later = [o for o in sc if o > t]
                            nxt = min([o for o in sc if o > t], default=None)
                            # the harness walks the script in offset order: next entry after the current one
                            keys = sorted(sc)
                            i = keys.index(t)
                            if i + 1 < len(keys):
                                self.request(n, t, keys[i + 1], False)
                    self.run_user(n, t, [], body)
            elif k == "ticker":
                if due:
                    def body(n=n, name=name):
                        c = self.state[name]
                        self.write(n, t, c * 100 + 7)
                        self.state[name] = c + 1
                        if c + 1 < n["count"]:
                            self.request(n, t, t + n["period"], False)
                    self.run_user(n, t, [], body)
            elif k == "const":
                if due:
                    self.write(n, t, n["value"])
            elif k == "feedback":
                if due:
                    q = self.state.get(name, [])
                    vals = [v for (tt, v) in q if tt == t]
                    self.state[name] = [(tt, v) for (tt, v) in q if tt > t]
                    if vals:
                        p = self.ports[name]
                        p.value, p.valid, p.lmt = vals[-1], True, t
            elif k in ("c1", "c2", "c3", "sample", "samplemid"):
                args = n["args"]
                views = [self.view(a, t) for a in args]
                if k == "sample":
                    # compile-time passive second input; a wiring-time mark on it is redundant, one on the trigger is not
                    active = [not args[0].startswith("~"), False]
                    required = [True, False]
                    op = 0
                elif k == "samplemid":
                    active = [not args[0].startswith("~"), False, not args[2].startswith("~")]
                    required = [True, True, False]
                    op = 0
                else:
                    active = [not a.startswith("~") for a in args]
                    required = [c == "V" for c in (n.get("valid", "VVV") + "VVV")[:len(args)]]
                    op = n.get("op", 0)
                trig = any(act and v[1] for act, v in zip(active, views))
                ready = all(v[0] for req, v in zip(required, views) if req)
                if trig and ready:
                    def body(n=n, views=views, op=op):
                        w, val = self.mix(views, op)
                        if w:
                            self.write(n, t, val)
                    self.run_user(n, t, views, body)
            elif k == "sshot":
                v = self.view(n["args"][0], t)
                if self.quirks == "sshot" and not due and (not n["args"][0].startswith("~") and v[1]) and any(w > t for w in self.pending[name]):
                    # engine behaviour (known finding F19): the stateless single-shot request lives only in the graph's one
                    # schedule slot per node; an earlier input-driven evaluation overwrites it and nothing re-arms it
                    self.sshot_lost = getattr(self, "sshot_lost", 0) + len(self.pending[name])
                    self.pending[name].clear()
                if due or (not n["args"][0].startswith("~") and v[1]):
                    def body(n=n, v=v):
                        self.write(n, t, norm((v[2] if v[0] else 0) + (1000 if t == n["at"] else 0)))
                    self.run_user(n, t, [v], body)
            elif k == "lift2":
                # a lifted scalar function: all inputs active and required; it sees values only (no flags in its log)
                views = [self.view(a, t) for a in n["args"]]
                if any(v[1] for v in views) and all(v[0] for v in views):
                    def body(n=n, views=views):
                        self.write(n, t, norm(views[0][2] * 3 + views[1][2] * 5 + 11))
                    self.run_user(n, t, views, body, flags=False)
            elif k == "conv":
                v = self.view(n["args"][0], t)
                if not n["args"][0].startswith("~") and v[1] and v[0]:
                    def body(n=n, v=v):
                        self.write(n, t, norm(2 * v[2] + 1) if n.get("ty") == "F" else norm(v[2] + 1))
                    self.run_user(n, t, [v], body)
            elif k == "accum":
                v = self.view(n["args"][0], t)
                act = not n["args"][0].startswith("~")
                if act and v[1] and v[0]:
                    def body(n=n, name=name, v=v):
                        s = norm(self.state[name] + v[2])
                        self.state[name] = s
                        self.write(n, t, s)
                    self.run_user(n, t, [v], body)
            elif k in ("suml", "sumb"):
                views = [self.view(a, t) for a in n["args"]]
                trig = any(v[1] for v in views)
                if n.get("all", 0):
                    ready = all(v[0] for v in views)
                else:
                    ready = any(v[0] for v in views)
                if trig and ready:
                    def body(n=n, views=views):
                        _, val = self.mix(views, 0)
                        self.write(n, t, val)
                    self.run_user(n, t, views, body)
            elif k == "ite":
                self.pending[name].discard(t)
                c = self.view(n["args"][0], t)
                if c[0] and c[1]:
                    # the ToBool helper (id = ite id) runs whenever the condition source ticks
                    self.events.append({"k": "ev", "id": n["id"], "t": t, "in": self.ins([c])})
                    if self.fault_hit(n["id"], "eval"):
                        self.failed = (n["id"], "eval", t)
                        return
                    tgt = n["args"][1] if c[2] % 2 == 1 else n["args"][2]
                    cur = self.ite_sel.get(name)
                    if cur is None or self.resolve(cur[0]) != self.resolve(tgt):
                        old_ticked = self.view(cur[0], t)[1] if cur is not None else False
                        self.ite_sel[name] = (tgt, t, old_ticked)
            elif k in ("timer0", "timer1", "timer1p", "timer1v"):
                ready = True
                if k != "timer0":
                    v = self.view(n["args"][0], t)
                    trig = due or (v[1] and k != "timer1p")       # timer1p: its only input is compile-time passive
                    views = [v]
                    ready = v[0] or k in ("timer1", "timer1p")
                else:
                    trig = due
                    views = []
                if trig and not ready:
                    # woken but not ready: no user code; the runtime still consumes what fired
                    self.pending[name] = {x for x in self.pending[name] if x > t}
                elif trig:
                    def body(n=n, name=name, views=views, k=k):
                        kk = self.state[name] + 1
                        self.state[name] = kk
                        self.timer_ops(n, kk, t, False)
                        if k == "timer0":
                            self.write(n, t, kk)
                        else:
                            v = views[0]
                            self.write(n, t, norm(kk * 1000 + (v[2] if v[0] else -1)))
                    self.run_user(n, t, views, body)
                    # wake-ups at or before now are consumed after the evaluation
                    self.pending[name] = {x for x in self.pending[name] if x > t}
            elif k in ("alias", "delayed"):
                pass
            elif k == "gsread":
                pass
            else:
                raise ValueError("model: unknown kind " + k)
        if self.failed:
            return
        # feedback: whatever the bound producer port shows as modified in this cycle is delivered one MIN_TD later
        for prod, fbs in self.fb_of.items():
            v = self.view(prod, t)
            if v[1] and v[0]:
                for fb in fbs:
                    if t + 1 < self.end:
                        self.pending[fb].add(t + 1)
                    self.state.setdefault(fb, []).append((t + 1, v[2]))
        for s in self.prog.get("sinks", []):
            if s["kind"] in ("rec", "recu"):
                v = self.view(s["port"], t)
                act = not s["port"].startswith("~")
                if act and v[1] and (v[0] or s["kind"] == "recu"):
                    self.events.append({"k": "rec", "id": s["id"], "t": t, "v": v[2] if v[0] else None})
                    if self.fault_hit(s["id"], "eval"):
                        self.failed = (s["id"], "eval", t)
                        return


def predicted(prog, quirks=True):
    m = Model(copy.deepcopy(prog), quirks=quirks)
    cycles, events = m.run()
    return m, cycles, events


# ---------------------------------------------------------------------------------------------- shrinking
def _refs(n):
    return [a.lstrip("~") for a in n.get("args", [])]


def remove_node(prog, name):
    """program without node `name` and without everything that (transitively) reads it"""
    dead = {name}
    changed = True
    binds = list(prog.get("binds", []))
    while changed:
        changed = False
        for n in prog["nodes"]:
            if n["name"] not in dead and any(r in dead for r in _refs(n)):
                dead.add(n["name"])
                changed = True
        for h, p in binds:
            # a handle whose producer died is dropped together with its readers
            if p.lstrip("~") in dead and h not in dead:
                dead.add(h)
                changed = True
    q = copy.deepcopy(prog)
    q["nodes"] = [n for n in q["nodes"] if n["name"] not in dead]
    q["binds"] = [(h, p) for h, p in q.get("binds", []) if h not in dead and p.lstrip("~") not in dead]
    q["sinks"] = [s for s in q.get("sinks", []) if s["port"].lstrip("~") not in dead]
    # handles left without a bind cannot be wired: drop them (and their readers)
    bound = {h for h, _ in q["binds"]}
    for n in list(q["nodes"]):
        if n["kind"] in ("feedback", "delayed") and n["name"] not in bound:
            return remove_node(q, n["name"])
    return q


def shrink_program(prog):
    """candidate smaller programs, most aggressive first"""
    nodes = prog["nodes"]
    # 1. drop whole nodes (late ones first: fewer dependents)
    for n in reversed(nodes):
        q = remove_node(prog, n["name"])
        if q["nodes"] and q.get("sinks"):
            yield q
    # 2. drop sinks
    if len(prog.get("sinks", [])) > 1:
        for i in range(len(prog["sinks"])):
            q = copy.deepcopy(prog)
            del q["sinks"][i]
            yield q
    # 3. replace a node by an alias of its first input (keeps consumers alive)
    for n in nodes:
        if n.get("args") and n["kind"] not in ("alias", "ite", "ctxscope") and n["kind"] != "feedback":
            q = copy.deepcopy(prog)
            for m in q["nodes"]:
                m["args"] = [(("~" if a.startswith("~") else "") + n["args"][0].lstrip("~")) if a.lstrip("~") == n["name"] else a for a in m.get("args", [])]
            for s in q.get("sinks", []):
                if s["port"].lstrip("~") == n["name"]:
                    s["port"] = n["args"][0].lstrip("~")
            q["binds"] = [(h, n["args"][0].lstrip("~") if p.lstrip("~") == n["name"] else p) for h, p in q.get("binds", [])]
            q["nodes"] = [m for m in q["nodes"] if m["name"] != n["name"]]
            # passive marks may now cover every input of a consumer: un-mark the first
            for m in q["nodes"]:
                if m.get("args") and all(a.startswith("~") for a in m["args"]):
                    m["args"][0] = m["args"][0][1:]
            yield q
    # 4. nested -> inline, deeper -> shallower
    for i, n in enumerate(nodes):
        if n["kind"] in ("nested3", "nested2", "nested"):
            q = copy.deepcopy(prog)
            q["nodes"][i]["kind"] = {"nested3": "nested2", "nested2": "nested", "nested": "inline"}[n["kind"]]
            yield q
    # 5. faults
    for i in range(len(prog.get("faults", []))):
        q = copy.deepcopy(prog)
        del q["faults"][i]
        yield q
    # 6. script entries
    for sid, sc in prog.get("scripts", {}).items():
        for o in sorted(sc):
            if len(sc) > 1:
                q = copy.deepcopy(prog)
                del q["scripts"][sid][o]
                yield q
    for tid, ts in prog.get("tscripts", {}).items():
        for k in sorted(ts):
            for j in range(len(ts[k])):
                q = copy.deepcopy(prog)
                del q["tscripts"][tid][k][j]
                yield q
    # 7. window
    s, e = prog["window"]
    if e - s > 2:
        q = copy.deepcopy(prog)
        q["window"] = (s, s + (e - s) // 2)
        yield q
    # 8. passive marks, validity
    for i, n in enumerate(nodes):
        for j, a in enumerate(n.get("args", [])):
            if a.startswith("~"):
                q = copy.deepcopy(prog)
                q["nodes"][i]["args"][j] = a[1:]
                yield q
        if "U" in n.get("valid", ""):
            q = copy.deepcopy(prog)
            q["nodes"][i]["valid"] = n["valid"].replace("U", "V")
            yield q


def normalise(prog):
    """JSON round trip safe form (tuple -> list, int keys restored)"""
    q = copy.deepcopy(prog)
    q["scripts"] = {int(k): {int(o): v for o, v in sc.items()} for k, sc in q.get("scripts", {}).items()}
    q["tscripts"] = {int(k): {int(kk): list(v) for kk, v in ts.items()} for k, ts in q.get("tscripts", {}).items()}
    q["window"] = tuple(q["window"])
    q["binds"] = [tuple(b) for b in q.get("binds", [])]
    q["faults"] = [tuple(f) for f in q.get("faults", [])]
    return q


def shape_key(prog):
    return json_dumps([(n["kind"], n.get("g"), n.get("valid"), n.get("op"), [a.startswith("~") for a in n.get("args", [])]) for n in prog["nodes"]])


def json_dumps(x):
    import json
    return json.dumps(x, sort_keys=True)
