"""Oracles over collections-mode logs: C04 (flags), C05 (delta/value coherence), C20 (record/replay)."""
import json

import coll

MIN_DT = "MIN_DT"


def conv_key(kind, k):
    return int(k) if kind == "int" else k


def norm_value(shape, js, ch=None):
    """engine value JSON (+ child descriptions) -> the model's representation"""
    k = shape[0]
    if js is None:
        if k in ("TSL", "TSB") and ch is not None:
            pass
        else:
            return None
    if k in ("TS", "SIGNAL"):
        return js
    if k == "TSS":
        return set(js)
    if k == "TSD":
        out = {}
        for key, v in js.items():
            c = (ch or {}).get(key)
            if c is not None and not c["v"]:
                # a slot whose child never became valid is not a published entry
                continue
            if c is None and shape[2][0] == "TSW" and len(v) < shape[2][2]:
                continue        # (no child description at hand: a window below its minimum count is not valid)
            out[conv_key(shape[1], key)] = norm_value(shape[2], v, c.get("ch") if c else None)
        return out
    if k == "TSL":
        out = []
        for i in range(shape[2]):
            c = (ch or {}).get(str(i))
            if c is not None and not c["v"]:
                out.append(coll.fresh(shape[1]))
            else:
                out.append(norm_value(shape[1], js[i] if js is not None and i < len(js) else None, c.get("ch") if c else None))
        return out
    if k == "TSB":
        out = {}
        for f, s in shape[1]:
            c = (ch or {}).get(f)
            if (js is None or f not in js) or (c is not None and not c["v"]):
                out[f] = coll.fresh(s)
            else:
                out[f] = norm_value(s, js[f], c.get("ch") if c else None)
        return out
    if k == "TSW":
        return list(js)
    raise ValueError(shape)


def model_norm(shape, st):
    """model state -> comparable form (never-valid containers compare equal to empty ones only where the engine cannot tell)"""
    k = shape[0]
    if k == "TSD" and st is not None:
        return {key: model_norm(shape[2], v) for key, v in st.items() if coll.is_valid(shape[2], v)}
    if k == "TSL":
        return [model_norm(shape[1], c) if shape[1][0] != "TSW" or coll.is_valid(shape[1], c) else None for c in st]
    if k == "TSB":
        # (a window field below its minimum count holds no value yet)
        return {f: (model_norm(s, st[f]) if s[0] != "TSW" or coll.is_valid(s, st[f]) else None) for f, s in shape[1]}
    if k == "TSS" and st is not None:
        return set(st)
    return st


def walk(desc, path=""):
    yield path, desc
    for k, c in (desc.get("ch") or {}).items():
        yield from walk(c, path + "/" + k)


def empty_delta(dv):
    if dv is None:
        return True
    if isinstance(dv, dict):
        return all(empty_delta(v) for v in dv.values()) if dv else True
    if isinstance(dv, list):
        return len(dv) == 0
    return False


def parse_run(events, run=0):
    cur = -1
    W, P, C, M, bufs = {}, {}, {}, {}, {}
    cycles = []
    ran = None
    for e in events:
        k = e["k"]
        if k == "run":
            cur = e["r"]
            continue
        if k == "buf":
            bufs[(e["r"], e["key"])] = e["v"]
            continue
        if k == "sbuf":
            bufs[("s", e["r"], e["key"])] = e["v"]
            continue
        if cur != run:
            continue
        if k == "W":
            W.setdefault(e["id"], {})[e["t"]] = e["o"]
        elif k == "P":
            P.setdefault(e["id"], {})[e["t"]] = e["i"]
        elif k == "C":
            C.setdefault(e["id"], []).append((e["t"], e["i"]))
        elif k == "M":
            M.setdefault(e["id"], {})[e["t"]] = e
        elif k == "cyc" and e["g"] == 0:
            cycles.append(e["t"])
        elif k == "ran":
            ran = e
    return dict(W=W, P=P, C=C, M=M, bufs=bufs, cycles=cycles, ran=ran)


def model_timeline(writer):
    """per scripted time: (model state before, after) for erased and typed writers"""
    shape = coll.SHAPES[writer["shape"]]
    st = coll.fresh(shape)
    out = {}
    for t in sorted(writer["script"]):
        before = st
        for op in writer["script"][t]:
            kind, arg = op[0], op[1]
            if kind == "d":
                st = coll.apply(shape, st, json.loads(arg))
            elif kind == "inv":
                st = coll.fresh(shape)
            elif kind == "set" and writer["shape"] == "TS":
                st = int(arg)
            elif kind == "add":
                st = (set(st) if st is not None else set()) | {int(arg)}
            elif kind == "rem":
                st = (set(st) if st is not None else set()) - {int(arg)}
            elif kind == "clear":
                st = set() if writer["shape"] == "TSS" else {}
            elif kind in ("set", "setc"):
                k2, v = arg.split(":")
                st = dict(st) if st is not None else {}
                st[int(k2)] = int(v)
            elif kind == "del":
                st = dict(st) if st is not None else {}
                st.pop(int(arg), None)
            elif kind == "seti":
                i, v = arg.split(":")
                st = list(st)
                st[int(i)] = int(v)
            elif kind == "setf":
                f, v = arg.split(":")
                st = dict(st)
                st[f] = int(v)
            elif kind == "push":
                st = ((list(st) if st is not None else []) + [int(arg)])[-3:]
        out[t] = (before, st)
    return out


# ------------------------------------------------------------------------------------------------ C04
def check_flags(sc, log):
    stats = dict(probe_readings=0, consumer_readings=0, probe_quiet_cycle_readings=0, probe_invalidations=0, probe_child_only_writes=0,
                 probe_multi_write_cycles=0)
    W, P, C = log["W"], log["P"], log["C"]
    src_of = {m["id"]: m["src"] for m in sc.get("mirrors", [])}
    writers = {w["id"]: w for w in sc["writers"]}
    for probe in sc.get("probes", []):
        src = probe["src"]
        if src in src_of:
            continue          # probes on mirrors are compared with the mirror's own output by the C20 check
        w = writers[src]
        shape = coll.SHAPES[w["shape"]]
        tl = model_timeline(w)
        last = None
        last_mod = None
        invalidated = False
        stats["probe_multi_write_cycles"] += sum(1 for t in w["script"] if len(w["script"][t]) > 1)
        for t in sorted(P.get(probe["id"], {})):
            pi = P[probe["id"]][t]
            stats["probe_readings"] += 1
            wo = W.get(src, {}).get(t)
            if wo is not None:
                last = wo
                if wo["m"]:
                    last_mod = t
            wm = wo["m"] if wo is not None else 0
            # an explicit invalidation: the statement fixes `valid` only (the producer's own tracking is cleared while
            # consumers are notified at the invalidation time); modified / last-modified-time are not compared until
            # the next write
            inv_now = t in w["script"] and any(op[0] == "inv" for op in w["script"][t])
            if inv_now:
                invalidated = True
            elif wm:
                invalidated = False
            if not wm:
                stats["probe_quiet_cycle_readings"] += 1
            # the producer wrote <=> modified, for effective writes
            if t in tl:
                before, after = tl[t]
                if model_norm(shape, before) != model_norm(shape, after) or (before is None) != (after is None):
                    if not wm and not inv_now:
                        return ("write_not_modified", "writer %d (%s) changed its value at t=%d but its output does not read modified" % (src, w["shape"], t)), stats
                if after is None and before is not None:
                    stats["probe_invalidations"] += 1
            if pi["m"] != wm and inv_now and pi["m"] == 1 and wm == 0:
                stats["known_F16"] = stats.get("known_F16", 0) + 1      # consumer reads modified in the invalidation cycle, the producer does not
            if pi["m"] != wm and not inv_now:
                return ("modified_flag", "t=%d probe %d on %s writer %d reads modified=%d; the producer %s at that time" % (t, probe["id"], w["shape"], src, pi["m"], "wrote" if wm else "did not write")), stats
            exp_v = last["v"] if last is not None else 0
            if pi["v"] != exp_v:
                return ("valid_flag", "t=%d probe %d on %s writer %d reads valid=%d, producer valid=%d" % (t, probe["id"], w["shape"], src, pi["v"], exp_v)), stats
            exp_lmt = last_mod if last_mod is not None else MIN_DT
            if invalidated and last is not None and pi["lmt"] != last.get("lmt") and pi["lmt"] != MIN_DT:
                stats["known_F16"] = stats.get("known_F16", 0) + 1      # after an invalidation the consumer keeps a last-modified-time, the producer reads MIN_DT
            if pi["lmt"] != exp_lmt and not invalidated:
                return ("last_modified_time", "t=%d probe %d on %s writer %d reads last_modified_time=%s, latest write was at %s" % (t, probe["id"], w["shape"], src, pi["lmt"], exp_lmt)), stats
            if last is not None and last["v"] and pi["val"] != last["val"]:
                return ("consumer_value", "t=%d probe %d reads %s, producer holds %s" % (t, probe["id"], pi["val"], last["val"])), stats
            # validity against the write history
            mstate = None
            for tt in sorted(tl):
                if tt <= t:
                    mstate = tl[tt][1]
            ever = any(tt <= t for tt in tl)
            mvalid = 1 if (ever and coll.is_valid(shape, mstate)) else 0
            if shape[0] not in ("TSW",) and pi["v"] != mvalid:
                return ("valid_history", "t=%d probe %d on %s writer %d reads valid=%d; by the write history it is %d" % (t, probe["id"], w["shape"], src, pi["v"], mvalid)), stats
            # tree consistency
            for path, n in walk(pi):
                if n["m"] != (1 if n["lmt"] == t else 0):
                    return ("modified_vs_lmt", "t=%d probe %d%s: modified=%d but last_modified_time=%s" % (t, probe["id"], path, n["m"], n["lmt"])), stats
                if "modk" in n and n["v"]:
                    # a dictionary names as modified exactly its live entries whose child is modified in this cycle
                    # (an entry whose child holds no value yet - e.g. a window below its minimum count - is not published)
                    kid_mod = sorted(str(k) for k, c in (n.get("ch") or {}).items() if c["m"] and c["v"])
                    if sorted(map(str, n["modk"])) != kid_mod and n["m"]:
                        return ("modified_keys_vs_children", "t=%d probe %d%s: modified_keys() reads %s but the children reading modified are %s" % (
                            t, probe["id"], path, n["modk"], kid_mod)), stats
                kids = list((n.get("ch") or {}).values())
                if kids:
                    if any(c["m"] for c in kids) and not n["m"]:
                        return ("parent_not_modified", "t=%d probe %d%s: a child is modified but the parent is not" % (t, probe["id"], path)), stats
                    fixed = "added" not in n
                    if fixed and n["m"] and n["v"] and not any(c["m"] for c in kids):
                        return ("fixed_parent_modified_alone", "t=%d probe %d%s: fixed-shape parent modified without any child modified" % (t, probe["id"], path)), stats
                    if fixed and any(c["m"] for c in kids) and not all(c["m"] for c in kids):
                        stats["probe_child_only_writes"] += 1
                if not n["m"]:
                    if "added" in n and (n["added"] or n["removed"] or n.get("modk")):
                        return ("stale_delta", "t=%d probe %d%s: not modified but added=%s removed=%s modified=%s" % (t, probe["id"], path, n["added"], n["removed"], n.get("modk"))), stats
                    if not empty_delta(n.get("dv")):
                        return ("stale_delta", "t=%d probe %d%s: not modified in this cycle but delta_value() reads %s" % (t, probe["id"], path, json.dumps(n.get("dv")))), stats
    # active consumers: evaluated exactly in the producer's write cycles, same readings
    for c in sc.get("cons", []):
        src = c["src"]
        if src in src_of or c.get("every", 1) != 1:
            continue
        wsrc = writers[src]
        inv_t = {t for t in wsrc["script"] if any(op[0] == "inv" for op in wsrc["script"][t])}
        wt = sorted(t for t, o in W.get(src, {}).items() if o["m"] and t not in inv_t)
        ct = [t for (t, _) in C.get(c["id"], []) if t not in inv_t]
        if ct != wt:
            return ("consumer_activation", "active consumer %d evaluated at %s, producer %d wrote at %s" % (c["id"], ct[:12], src, wt[:12])), stats
        for (t, ci) in C.get(c["id"], []):
            stats["consumer_readings"] += 1
            wo = W[src][t]
            if ci is None or t in inv_t:
                continue
            if ci["m"] != 1 or ci["lmt"] != t or ci["v"] != wo["v"] or (wo["v"] and ci["val"] != wo["val"]):
                return ("consumer_reading", "t=%d consumer %d reads m=%d lmt=%s v=%d val=%s; producer v=%d val=%s" % (t, c["id"], ci["m"], ci["lmt"], ci["v"], ci["val"], wo["v"], wo["val"])), stats
    return None, stats


# ------------------------------------------------------------------------------------------------ C05
def keysets(shape, n):
    conv = lambda xs: {conv_key(shape[1], x) if not isinstance(x, int) or shape[1] == "int" else x for x in xs}
    return conv(n.get("added", [])), conv(n.get("removed", []))


def item_views_disagree(n):
    """The (key, child) views of a dictionary delta must name exactly the keys of the key views (same delta, two accessors)."""
    if n is None or "addi" not in n:
        return None
    for a, b, what in (("added", "addi", "added_keys()/added_items()"), ("removed", "remi", "removed_keys()/removed_items()"),
                       ("modk", "modi", "modified_keys()/modified_items()")):
        if sorted(map(str, n.get(a, []))) != sorted(map(str, n.get(b, []))):
            return "%s disagree: keys %s, items %s" % (what, n.get(a), n.get(b))
    return None


def only_removed_items_empty(n):
    """Signature of known finding F11: removed_items() is empty although removed_keys() names keys; the other views agree."""
    return (n is not None and "remi" in n and n["remi"] == [] and n.get("removed") and
            sorted(map(str, n.get("added", []))) == sorted(map(str, n.get("addi", []))) and
            sorted(map(str, n.get("modk", []))) == sorted(map(str, n.get("modi", []))))


def check_coherence(sc, log):
    stats = dict(ticks_checked=0, probe_cancelled_in_cycle=0, probe_slot_growth=0, probe_remove_readd=0, probe_lazy_reads=0, probe_window_below_min=0)
    W, C = log["W"], log["C"]
    writers = {w["id"]: w for w in sc["writers"]}
    src_of = {m["id"]: m["src"] for m in sc.get("mirrors", [])}
    towin_ids = {t["id"] for t in sc.get("towins", [])}
    for c in sc.get("cons", []):
        src = src_of.get(c["src"], c["src"])
        if src in towin_ids:
            continue            # stdlib::to_window outputs: check_windows
        w = writers[src]
        shape = coll.SHAPES[w["shape"]]
        tl = model_timeline(w)
        replica = coll.fresh(shape)
        prev_keys = set()
        lazy = c.get("every", 1) != 1
        for (t, ci) in C.get(c["id"], []):
            mstate = None
            for tt in sorted(tl):
                if tt <= t:
                    mstate = tl[tt][1]
            if ci is None:
                replica = None if lazy else replica
                continue
            stats["ticks_checked"] += 1
            if lazy:
                stats["probe_lazy_reads"] += 1
            if shape[0] == "TSW":
                n = len(mstate) if mstate is not None else 0
                if n < shape[2]:
                    stats["probe_window_below_min"] += 1
                if (1 if n >= shape[2] else 0) != ci["v"]:
                    return ("window_validity", "t=%d window holds %d values, min count %d, but reads valid=%d" % (t, n, shape[2], ci["v"])), stats
                if ci["v"] and ci["val"] != mstate:
                    return ("window_contents", "t=%d window reads %s, the last %d pushed values are %s" % (t, ci["val"], shape[1], mstate)), stats
                continue
            if not ci["v"]:
                continue
            cur = norm_value(shape, ci["val"], ci.get("ch"))
            # model-based: the value equals the container model after the scripted mutations
            below_mirror = c["src"] in src_of
            if (strip_empty(cur) != strip_empty(model_norm(shape, mstate))) if below_mirror else (cur != model_norm(shape, mstate)):
                # (below a capture/apply mirror an invalid collection child arrives valid-and-empty: finding F7, owned by C20)
                # known finding F6: a TSD key removed and re-added within one cycle keeps its old (collection) child
                mm = model_norm(shape, mstate)
                if shape[0] == "TSD" and shape[2][0] in ("TSS", "TSD", "TSL", "TSB", "TSW") and isinstance(cur, dict) and isinstance(mm, dict):
                    rr = revived_keys(w, shape, t)
                    # (a window child that keeps its old pushes may also be valid earlier than a fresh one: the key sets may differ at the revived keys)
                    se = strip_empty if below_mirror else (lambda x: x)       # (below a mirror: finding F7 on top, owned by C20)
                    if rr and se({k: v for k, v in cur.items() if k not in rr}) == se({k: v for k, v in mm.items() if k not in rr}) and (
                            set(cur) == set(mm) or shape[2][0] == "TSW"):
                        stats["known_F6"] = stats.get("known_F6", 0) + 1
                        replica = None
                        lazy = True      # the replica can no longer follow the model for this consumer
                        prev_keys = set(cur.keys())
                        continue
                return ("value_vs_model", "t=%d consumer %d on %s reads %s; container model holds %s" % (t, c["id"], w["shape"], ci["val"], model_norm(shape, mstate))), stats
            # relational: previous value + this tick's delta = current value (only for consumers that saw every tick)
            d = ci.get("d")
            # (windows: the statement defines their contents by the pushed values, checked against the model above; a push
            # below the minimum count is not visible in any delta, so the relational clause does not apply to them)
            if not lazy and not coll.has_window(shape) and isinstance(d, (dict, int, str, bool)) and not (isinstance(d, str) and d.startswith("!")):
                try:
                    replica = coll.apply(shape, replica, d)
                except Exception as ex:      # a delta that cannot even be applied
                    return ("delta_not_applicable", "t=%d delta %s cannot be applied: %s" % (t, json.dumps(d), ex)), stats
                if strip_empty(model_norm(shape, replica)) != strip_empty(cur):
                    return ("value_is_prev_plus_delta", "t=%d consumer %d on %s: previous value + delta %s gives %s but the value reads %s" % (
                        t, c["id"], w["shape"], json.dumps(d), model_norm(shape, replica), cur)), stats
            if shape[0] in ("TSS", "TSD"):
                dis = item_views_disagree(ci)
                if dis:
                    return ("delta_views_disagree", "t=%d consumer %d on %s: %s" % (t, c["id"], w["shape"], dis)), stats
                # the raw per-tick delta (delta_value()) and the canonical capture (capture_delta()) of one input name the same tick
                dvv = ci.get("dv")
                if isinstance(dvv, dict) and isinstance(d, dict) and shape in (coll.SHAPES["TSS"], coll.SHAPES["TSSStr"], coll.SHAPES["TSD"], coll.SHAPES["TSDStr"]) and canon(dvv) != canon(d):
                    return ("delta_value_vs_capture", "t=%d consumer %d on %s: delta_value() reads %s, capture_delta() %s" % (t, c["id"], w["shape"], json.dumps(dvv), json.dumps(d))), stats
                added, removed = keysets(shape, ci)
                cur_keys = set(cur) if shape[0] == "TSS" else set(cur.keys())
                if added & removed:
                    return ("added_removed_overlap", "t=%d added %s and removed %s overlap" % (t, sorted(added, key=str), sorted(removed, key=str))), stats
                if not added <= cur_keys:
                    if shape[0] == "TSS" or True:
                        miss = added - cur_keys
                        # a TSD slot whose child is not valid yet is not part of the published value
                        if shape[0] == "TSS" or any(((ci.get("ch") or {}).get(str(k)) or {}).get("v") for k in miss):
                            return ("added_not_present", "t=%d added %s but the value holds %s" % (t, sorted(added, key=str), sorted(cur_keys, key=str))), stats
                if removed & cur_keys:
                    return ("removed_still_present", "t=%d removed %s but the value still holds them: %s" % (t, sorted(removed, key=str), sorted(cur_keys, key=str))), stats
                if not lazy and not removed <= prev_keys:
                    return ("removed_never_present", "t=%d removed %s but the previous value held %s" % (t, sorted(removed, key=str), sorted(prev_keys, key=str))), stats
                if not lazy and added & prev_keys:
                    return ("added_already_present", "t=%d added %s but the previous value already held them" % (t, sorted(added & prev_keys, key=str))), stats
                prev_keys = cur_keys
                if len(cur_keys) > 8:
                    stats["probe_slot_growth"] += 1
                if t in w["script"] and ci["m"] and not added and not removed:
                    stats["probe_cancelled_in_cycle"] += 1
    return None, stats


def check_windows(sc, log):
    """stdlib::to_window (tick-count / duration, resettable): the window a consumer reads at every tick equals the reference
    model driven by the scripted pushes and resets. Duration window of range R: a push at t first drops every element older
    than t - R, then appends (t, v); tick-count window of period N: a push appends and drops the oldest beyond N; a reset
    empties the window before a push of the same cycle. A tick-count window is valid iff it holds >= min elements."""
    stats = dict(window_ticks_checked=0, probe_window_evictions=0, probe_window_resets=0, probe_window_reset_with_push=0, probe_duration_window_grew_while_full=0,
                 probe_window_below_min=0)
    C = log["C"]
    writers = {w["id"]: w for w in sc["writers"]}
    for tw in sc.get("towins", []):
        pushes = {}
        for t, ops in writers[tw["src"]]["script"].items():
            vals = [int(o[1]) for o in ops if o[0] == "d"]
            if vals:
                pushes[int(t)] = vals[-1]
        resets = set(int(t) for t in writers[tw["reset"]]["script"]) if tw.get("reset") else set()
        end = sc["window"][1]
        times = sorted(t for t in set(pushes) | resets if t < end)
        model = []          # [(time, value)]
        timeline = {}
        for t in times:
            evicted = []
            if t in resets:
                model = []
                stats["probe_window_resets"] += 1
                if t in pushes:
                    stats["probe_window_reset_with_push"] += 1
            if t in pushes:
                if tw["kind"] == "dur":
                    while model and model[0][0] < t - tw["period"]:
                        evicted.append(model.pop(0))
                    if not evicted and len(model) >= 4 and (len(model) & (len(model) - 1)) == 0:
                        stats["probe_duration_window_grew_while_full"] += 1
                    model.append((t, pushes[t]))
                else:
                    model.append((t, pushes[t]))
                    while len(model) > tw["period"]:
                        evicted.append(model.pop(0))
            if evicted:
                stats["probe_window_evictions"] += 1
            timeline[t] = (list(model), evicted)
        for c in sc.get("cons", []):
            if c["src"] != tw["id"]:
                continue
            seen = set()
            for (t, ci) in C.get(c["id"], []):
                if ci is None:
                    continue
                seen.add(t)
                if t not in timeline:
                    return ("window_unrequested_tick", "t=%d the window below to_window(%s) ticked although nothing was pushed or reset at that time" % (t, tw)), stats
                model, evicted = timeline[t]
                stats["window_ticks_checked"] += 1
                mv = [v for (_, v) in model]
                mt = [x for (x, _) in model]
                if tw["kind"] == "tick":
                    need = tw["min"] if tw["min"] > 0 else tw["period"]
                    valid = len(model) >= need
                    if not valid:
                        stats["probe_window_below_min"] += 1
                    if ci["v"] != (1 if valid else 0):
                        return ("window_validity", "t=%d tick-count window (period %d, min %d) holds %d values but reads valid=%d" % (t, tw["period"], need, len(model), ci["v"])), stats
                elif model and not ci["v"]:
                    return ("window_validity", "t=%d duration window holds %d values but reads invalid" % (t, len(model))), stats
                if ci["v"]:
                    if ci.get("wv") != mv:
                        return ("window_contents", "t=%d %s window (period %d) reads %s; the reference model (pushes %s, resets %s) holds %s" % (
                            t, tw["kind"], tw["period"], ci.get("wv"), sorted(p for p in pushes if p <= t)[-12:], sorted(r for r in resets if r <= t), mv)), stats
                    if ci.get("wt") != mt:
                        return ("window_times", "t=%d %s window (period %d) holds values %s with times %s; the pushes happened at %s" % (t, tw["kind"], tw["period"], mv, ci.get("wt"), mt)), stats
                    if ci["val"] != mv:
                        return ("window_contents", "t=%d value() reads %s but the window's elements are %s" % (t, ci["val"], mv)), stats
                    if "wrem" in ci and ci["wrem"] not in [v for (_, v) in evicted] and t not in resets:
                        return ("window_removed_value", "t=%d removed_value() reads %s; the push of this cycle evicted %s" % (t, ci["wrem"], evicted)), stats
            for t in times:
                if t in pushes and t not in seen and c.get("every", 1) == 1:
                    need = (tw["min"] if tw["min"] > 0 else tw["period"]) if tw["kind"] == "tick" else 1
                    if len(timeline[t][0]) >= need:
                        return ("window_tick_missing", "a push at t=%d into a valid %s window did not tick the consumer (it was evaluated at %s)" % (t, tw["kind"], sorted(seen)[:20])), stats
    return None, stats


def check_sparse_replay(sc, log0, log1):
    """sparse (absolute-time) record in run 1, replay of that recording in run 2 over a window that may begin later: the replay
    ticks in exactly the recorded cycles that fall into its window (an entry older than the window is not replayed, at the
    window's start or ever), and - when the whole recording lies inside the window, or for scalars - with exactly the
    recorded deltas; the re-recorded buffer equals the recorded one restricted to the window"""
    stats = dict(recorded_ticks=0, sparse_replays=0, probe_replay_starts_after_first_entry=0, probe_replay_starts_on_an_entry=0, probe_replay_starts_in_a_gap=0)
    s2, e2 = sc.get("window2") or sc["window"]
    for pr in sc.get("spairs", []):
        b1 = log0["bufs"].get(("s", 0, pr["b1"]))
        b2 = log1["bufs"].get(("s", 1, pr["b2"]))
        if b1 is None:
            continue
        stats["sparse_replays"] += 1
        stats["recorded_ticks"] += len(b1)
        inside = [e for e in b1 if s2 <= e[0] < e2]
        late = bool(b1) and b1[0][0] < s2
        if late:
            stats["probe_replay_starts_after_first_entry"] += 1
            stats["probe_replay_starts_on_an_entry" if any(e[0] == s2 for e in b1) else "probe_replay_starts_in_a_gap"] += 1
        got = b2 or []
        if [e[0] for e in got] != [e[0] for e in inside]:
            return ("sparse_replay_cycles", "%s: recorded at %s, replay window [%d,%d): re-recorded ticks at %s, expected %s" % (
                pr["b1"], [e[0] for e in b1], s2, e2, [e[0] for e in got], [e[0] for e in inside])), stats
        seen = sorted(t for (t, ci) in log1["C"].get(pr["cons"], []) if ci is not None)
        if seen != [e[0] for e in inside]:
            return ("sparse_replay_cycles", "%s: the consumer of the replay was evaluated at %s; recorded ticks inside the window are at %s" % (pr["b1"], seen, [e[0] for e in inside])), stats
        if not late or pr["shape"] in ("TS", "TSStr"):
            for a, b in zip(inside, got):
                if canon(a[1]) != canon(b[1]):
                    return ("sparse_replay_delta", "%s: entry at %d recorded %s, the replay produced %s" % (pr["b1"], a[0], json.dumps(a[1]), json.dumps(b[1]))), stats
    return None, stats


def revived_keys(writer, shape, upto):
    """keys of a TSD writer that, at some cycle <= upto, were removed and created again within that one cycle (and have
    not been removed in a later cycle without re-creation)"""
    st = coll.fresh(shape)
    out = set()
    for t in sorted(writer["script"]):
        if t > upto:
            break
        before = set(st.keys()) if st else set()
        removed_now = set()
        for op in writer["script"][t]:
            if op[0] != "d":
                continue
            d = json.loads(op[1])
            for k in d.get("removed", []):
                removed_now.add(conv_key(shape[1], k))
            for k in d.get("modified", {}):
                kk = conv_key(shape[1], k)
                if kk in removed_now:
                    out.add(kk)
            st = coll.apply(shape, st, d)
        after = set(st.keys()) if st else set()
        out = {k for k in out if k in after}
    return out


# ------------------------------------------------------------------------------------------------ C20
F5 = "F5-empty-structural-tick-recorded-but-not-replayed"


def check_record_replay(sc, log0, log1):
    stats = dict(recorded_ticks=0, replayed_ticks=0, mirror_ticks=0, probe_empty_structural_delta=0, probe_holes=0)
    known = None
    bufs = dict(log0["bufs"])
    bufs.update(log1["bufs"])
    for rec in sc.get("pairs", []):
        b1 = bufs.get((0, rec["b1"]))
        b1m = bufs.get((0, rec["b1m"]))
        b2 = bufs.get((1, rec["b2"]))
        if b1 is None:
            continue
        try:
            wshape0 = coll.SHAPES[[w for w in sc["writers"] if w["id"] == int(rec["b1"].split("_")[1])][0]["shape"]]
        except (IndexError, ValueError, KeyError):
            wshape0 = None
        dict_of_windows = wshape0 is not None and window_below(wshape0)
        # every tick of the original is in the recording: the dense buffer has one slot per time step, and a cycle in which
        # the recorded output was modified must not be a hole
        try:
            wid0 = int(rec["b1"].split("_")[1])
        except (IndexError, ValueError):
            wid0 = None
        if wid0 is not None:
            for t in log0["cycles"]:
                i = t - sc["window"][0]          # the buffer is indexed by the time step since the start of the run
                wo = log0["W"].get(wid0, {}).get(t)
                if wo is not None and wo["m"] and wo["v"] and (i >= len(b1) or b1[i] is None):
                    wsh = coll.SHAPES[[w for w in sc["writers"] if w["id"] == wid0][0]["shape"]]
                    if window_below(wsh):
                        known = F12          # a tick that only pushed to a window below its minimum count is in no captured delta
                        continue
                    return ("tick_not_recorded", "cycle %d (t=%d): the recorded output ticked (value %s) but the recording %s has no entry for that cycle" % (
                        i, t, json.dumps(wo["val"])[:120], rec["b1"])), stats, known
        stats["recorded_ticks"] += sum(1 for x in b1 if x is not None)
        stats["probe_holes"] += sum(1 for x in b1 if x is None)
        for name, other in (("mirror", b1m), ("replay", b2)):
            if other is None:
                if any(x is not None for x in b1):
                    # nothing recorded on the other side at all
                    if all(oracle_empty(x) for x in b1 if x is not None):
                        known = F5
                        continue
                    if dict_of_windows:
                        known = F12
                        continue
                    return ("nothing_" + name + "ed", "%s of %s recorded nothing; original buffer %s" % (name, rec["b1"], json.dumps(b1)[:300])), stats, known
                continue
            if name == "replay":
                stats["replayed_ticks"] += sum(1 for x in other if x is not None)
            n = max(len(b1), len(other))
            for i in range(n):
                a = b1[i] if i < len(b1) else None
                b = other[i] if i < len(other) else None
                if canon(a) == canon(b):
                    continue
                if a is not None and b is None and oracle_empty(a):
                    stats["probe_empty_structural_delta"] += 1
                    known = F5
                    continue
                if a is not None and b is not None and prune(canon(a)) == prune(canon(b)):
                    # the same finding one level down: a child that ticked with an empty delta is in the recording
                    # but applying an empty child delta does not tick the copy's child
                    stats["probe_empty_structural_delta"] += 1
                    known = F5
                    continue
                if dict_of_windows and window_entries_dropped(a, b):
                    known = F12     # the copy's windows reach their minimum count later (or never): its recording lacks entries
                    continue
                return (name + "_differs", "cycle %d: recorded %s, %s gives %s" % (i, json.dumps(a), "the mirror's recording" if name == "mirror" else "record(replay(recording))", json.dumps(b))), stats, known
    # the mirror's value equals the writer's value at every tick
    W, M = log0["W"], log0["M"]
    for m in sc.get("mirrors", []):
        for t, e in M.get(m["id"], {}).items():
            stats["mirror_ticks"] += 1
            wo = W.get(m["src"], {}).get(t)
            if wo is None:
                continue
            wshape = coll.SHAPES[[w for w in sc["writers"] if w["id"] == m["src"]][0]["shape"]]
            if wo["v"] and e["o"]["v"] and norm_value(wshape, wo["val"]) != norm_value(wshape, e["o"]["val"]):
                if strip_empty(norm_value(wshape, wo["val"])) == strip_empty(norm_value(wshape, e["o"]["val"])):
                    known = F7      # only difference: empty collections that are still invalid in the source
                    continue
                if window_below(wshape) and windows_are_suffixes(wshape, wo["val"], e["o"]["val"]):
                    known = F12     # only difference: the copy's windows lack pushes made while the source window was below its minimum count
                    continue
                return ("mirror_value", "t=%d applying the captured delta %s gives %s, the source holds %s" % (t, json.dumps(e["d"]), json.dumps(e["o"]["val"]), json.dumps(wo["val"]))), stats, known
    return None, stats, known


F7 = "F7-captured-delta-validates-invalid-collection-child"
F12 = "F12-capture-drops-pushes-to-a-dictionary-window-below-its-minimum-count"


def window_below(shape):
    """a tick-count window directly below a dictionary or a bundle"""
    return (shape[0] == "TSD" and shape[2][0] == "TSW") or (shape[0] == "TSB" and any(s[0] == "TSW" for _, s in shape[1]))


def window_entries_dropped(a, b):
    """recording of a dictionary / bundle holding windows: entry b of the copy's recording is entry a of the original with
    some window pushes (and removals) missing, or missing altogether"""
    if a is None:
        return False
    if "modified" in a or "removed" in a:
        b = b if b is not None else {"removed": [], "modified": {}}
        am, bm = a.get("modified", {}), b.get("modified", {})
        return all(k in am and am[k] == v for k, v in bm.items()) and set(map(str, b.get("removed", []))) <= set(map(str, a.get("removed", [])))
    b = b if b is not None else {}
    return all(v is None or (k in a and a[k] == v) for k, v in b.items())


def windows_are_suffixes(shape, src, copy):
    """every window of the copy is a suffix of the source's window at the same place (possibly empty or missing); nothing
    else differs and the copy has no entry the source lacks"""
    def suffix(w, c):
        w, c = w or [], c or []
        return len(c) <= len(w) and (not c or w[len(w) - len(c):] == c)
    if not isinstance(src, dict) or not isinstance(copy, dict):
        return False
    if shape[0] == "TSD":
        return set(copy) <= set(src) and all(suffix(w, copy.get(k)) for k, w in src.items())
    for f, s in shape[1]:
        if s[0] == "TSW":
            if not suffix(src.get(f), copy.get(f)):
                return False
        elif src.get(f) != copy.get(f):
            return False
    return True


def strip_empty(x):
    if isinstance(x, dict):
        return {k: strip_empty(v) for k, v in x.items() if not (isinstance(v, (set, dict, list)) and len(v) == 0) and v is not None}
    if isinstance(x, list):
        return [strip_empty(v) for v in x]
    return x


def prune(d):
    """a delta without the entries that carry no change (empty child deltas)"""
    if isinstance(d, dict):
        out = {}
        for k, v in d.items():
            if k in ("added", "removed"):
                out[k] = v
                continue
            pv = prune(v)
            if k == "modified" and isinstance(pv, dict):
                pv = {kk: vv for kk, vv in pv.items() if not empty_delta(vv)}
            elif empty_delta(pv) and k not in ("modified",):
                continue
            out[k] = pv
        return out
    return d


def oracle_empty(d):
    return empty_delta(d)


def canon(x):
    if isinstance(x, dict):
        return {k: (sorted(canon(v), key=lambda z: json.dumps(z, sort_keys=True)) if k in ("added", "removed") and isinstance(v, list) else canon(v)) for k, v in x.items()}
    if isinstance(x, list):
        return [canon(v) for v in x]
    return x
