"""C11 - reduce equals the fold over exactly the currently valid elements."""
import copy
import json
import random

import coll
import ho
import oracle_coll as oc
import runner
from framework import Outcome

COMB = {"add": lambda a, b: a + b, "AddInts": lambda a, b: a + b, "MaxG": max}


def expected(vals, comb, zero):
    vals = list(vals)
    if not vals:
        return zero          # None = invalid
    if len(vals) == 1:
        return vals[0] if zero is None else COMB[comb](vals[0], zero)
    r = vals[0]
    for v in vals[1:]:
        r = COMB[comb](r, v)
    return r


def permute_script(w, rng):
    """the same history with the same-cycle operations permuted (key order inside each delta, delta split into several)"""
    q = copy.deepcopy(w)
    for t, ops in q["script"].items():
        new_ops = []
        for op in ops:
            d = json.loads(op[1])
            if "modified" in d:
                items = list(d["modified"].items())
                rng.shuffle(items)
                rem = list(d.get("removed", []))
                rng.shuffle(rem)
                if len(items) > 1 and rng.random() < 0.5:
                    cut = rng.randint(1, len(items) - 1)
                    new_ops.append(["d", coll.jd({"removed": rem, "modified": dict(items[:cut])})])
                    new_ops.append(["d", coll.jd({"removed": [], "modified": dict(items[cut:])})])
                else:
                    new_ops.append(["d", coll.jd({"removed": rem, "modified": dict(items)})])
            else:
                items = list(d.items())
                rng.shuffle(items)
                new_ops.append(["d", coll.jd(dict(items))])
        q["script"][t] = new_ops
    return q


class C11:
    id = "C11"
    level = "exploration"
    quick_runs = 1500
    quick_budget_s = 150
    thorough_budget_s = 900
    san = False
    rule = ("reduce_(combiner, collection[, zero]) over TSD<Int,TS<Int>> and fixed TSL<TS<Int>,3>; combiner in {stdlib::add_ (operator), AddInts (node), "
            "MaxG (sub-graph)}; zero absent or 1000 (not an identity, so any use of the zero with >= 2 live elements is visible); seeded histories: adds, "
            "removes, updates, several per cycle, shrink to empty and regrow, key pools of 5 and 80 (growth across capacity boundaries), list elements "
            "that are present but not yet valid. Every history is also fed, with its same-cycle operations permuted and split, to a second reduction. An "
            "always-awake probe reads the result in every engine cycle. Oracle: after every cycle the result is invalid / the zero (no live element), "
            "the element / combine(element, zero) (one), the fold over exactly the valid elements (two or more; zero not involved); the permuted "
            "history gives the same result in every cycle. non-trivial = the live element count changed at least twice; distinct = distinct histories"
            " Round 3: 8% of the dictionary histories hold 65-140 live entries at once, are shrunk to a handful and updated again.")
    assumptions = ["'at every tick' is read as 'after every engine cycle'; extra ticks of the result with an unchanged value are allowed (documented: a re-point is a tick)"]

    def gen(self, seed):
        rng = random.Random(seed)
        end = rng.choice((10, 16, 26))
        kind = rng.choice(("TSD", "TSD", "TSL"))
        if kind == "TSD":
            pool = rng.choice((3, 5, 9, 12, 17, 20))
            huge = rng.random() < 0.08
            w = ho.gen_tsd_writer(rng, 1, end, pool=pool, big=rng.random() < 0.15, mid=pool >= 9 and not huge, huge=huge)
        else:
            w = coll.gen_writer(rng, 1, "TSL", end)
        w2 = permute_script(w, rng)
        w2["id"] = 2
        comb = rng.choice(("add", "AddInts", "MaxG"))
        zero = rng.choice((None, 1000))
        z = " zero=%d" % zero if zero is not None else ""
        stmts = ["reduce 10 fn=%s c=1%s" % (comb, z), "probe 11 10 until=%d" % (end - 1), "cons 12 10",
                 "reduce 20 fn=%s c=2%s" % (comb, z), "probe 21 20 until=%d" % (end - 1)]
        return dict(sc=dict(window=(0, end), writers=[w, w2], stmts=stmts), comb=comb, zero=zero, kind=kind)

    def run(self, case, fresh=False):
        sc = ho.normalise(case["sc"])
        text = ho.emit(sc)
        res = runner.run_fresh(text, san=self.san) if fresh else runner.run(text, san=self.san)
        if not res.ok:
            return Outcome(harness_error="harness status=%s signal=%s timeout=%s tail=%s" % (res.status, res.signal, res.timeout, res.raw[-300:]), sample=text)
        for e in res.events:
            if e["k"] in ("wire_error", "harness_error"):
                return Outcome(harness_error="%s: %s" % (e["k"], e.get("what")), sample=text)
        sample = dict(scenario=text, log_head=res.raw[:800])
        ran = [e for e in res.events if e["k"] == "ran"]
        if not ran or ran[0]["run"] != "ok":
            return Outcome(violation=dict(clause="run_threw", detail=ran[0].get("what", "")[:400] if ran else "no ran event"), digest=res.digest, sample=sample)
        w = [x for x in sc["writers"] if x["id"] == 1]
        if not w:
            return Outcome(stats={}, digest=res.digest, nontrivial=False, sample=sample)
        w = w[0]
        shape = coll.SHAPES[w["shape"]]
        tl = oc.model_timeline(w)
        P = {}
        for e in res.events:
            if e["k"] == "P":
                P.setdefault(e["id"], {})[e["t"]] = e["i"]
        v = None
        counts = []
        stats = dict(cycles_checked=0, probe_empty=0, probe_singleton=0, probe_two_or_more=0, probe_zero_used=0, probe_big_collection=0)
        for t in sorted(P.get(11, {})):
            mstate = None
            for tt in sorted(tl):
                if tt <= t:
                    mstate = tl[tt][1]
            if w["shape"] == "TSD":
                vals = list((mstate or {}).values())
            else:
                vals = [x for x in (mstate or []) if x is not None]
            exp = expected(vals, case["comb"], case["zero"])
            got = P[11][t]
            stats["cycles_checked"] += 1
            counts.append(len(vals))
            if len(vals) == 0:
                stats["probe_empty"] += 1
            elif len(vals) == 1:
                stats["probe_singleton"] += 1
            else:
                stats["probe_two_or_more"] += 1
            if len(vals) > 8:
                stats["probe_big_collection"] += 1
            if case["zero"] is not None and len(vals) <= 1:
                stats["probe_zero_used"] += 1
            gv = got["val"] if got["v"] else None
            if not any(tt <= t for tt in tl) and case["zero"] is not None and gv is None:
                continue     # before the collection first ticked a zero-seeded reduction may still be unset
            if gv != exp:
                v = ("reduce_value", "t=%d %d live elements %s, combiner %s, zero %s: result reads %s, the fold is %s" % (
                    t, len(vals), vals[:10], case["comb"], case["zero"], gv, exp))
                break
            other = P.get(21, {}).get(t)
            if other is not None and (other["val"] if other["v"] else None) != gv:
                v = ("order_dependence", "t=%d the same history with permuted same-cycle operations gives %s instead of %s" % (t, other["val"] if other["v"] else None, gv))
                break
        changes = sum(1 for a, b in zip(counts, counts[1:]) if a != b)
        stats["simulated_time_us"] = sc["window"][1]
        return Outcome(violation=dict(clause=v[0], detail=v[1]) if v else None, stats=stats, digest=res.digest, nontrivial=changes >= 2, sample=sample,
                       shape=runner.h64(text))

    def shrink(self, case):
        sc = ho.normalise(case["sc"])
        # keep both writers in step: shrink writer 1 and regenerate writer 2 as its (identity) copy
        w = [x for x in sc["writers"] if x["id"] == 1][0]
        for off in sorted(w["script"]):
            if len(w["script"]) > 1:
                q = copy.deepcopy(sc)
                for x in q["writers"]:
                    x["script"].pop(off, None)
                yield dict(case, sc=q)
        q = copy.deepcopy(sc)
        q["writers"] = [x for x in q["writers"] if x["id"] == 1]
        q["stmts"] = [s for s in q["stmts"] if " c=2" not in s and not s.startswith("probe 21")]
        if len(q["writers"]) != len(sc["writers"]):
            yield dict(case, sc=q)
        if sc["window"][1] > 6:
            q = copy.deepcopy(sc)
            q["window"] = (0, max(4, sc["window"][1] // 2))
            q["stmts"] = [s.replace("until=%d" % (sc["window"][1] - 1), "until=%d" % (q["window"][1] - 1)) for s in q["stmts"]]
            yield dict(case, sc=q)


PROPERTY = C11()
