"""C12 - switch_ output follows only the selected branch, which starts fresh."""
import copy
import json
import random

import coll
import ho
import runner
from framework import Outcome

BRANCHES = ("AddOne", "Accum", "Chain", "TickAfter", "AddKey", "ConstSource")


def switch_model(sc, spec, end):
    """reference: the concatenation of fresh solo instances of the selected branches"""
    w = {x["id"]: x for x in sc["writers"]}
    keys = dict(ho.ts_history(w[spec["key"]]))
    xs = dict(ho.ts_history(w[spec["x"]]))
    cases = spec["cases"]
    inst = None
    cur_key = None
    xval = None
    out_stream = []
    error_at = None
    instances = 0
    for t in range(0, end):
        kt = keys.get(t)
        xt = xs.get(t)
        if xt is not None:
            xval = xt
        first = False
        if kt is not None and (kt != cur_key or spec.get("reload")):
            f = cases.get(str(kt), spec.get("default"))
            if f is None:
                error_at = t
                break
            cur_key = kt
            inst = ho.FnModel(f, key=kt)
            instances += 1
            first = True
        if inst is None:
            continue
        due = inst.pending() == t
        # a key-consuming branch reads the key as an ordinary active input: a re-tick of the same key evaluates it
        key_tick = kt is not None and not first and inst.f == "AddKey"
        if not (first or xt is not None or due or key_tick):
            continue
        xin = xt
        if first and xin is None and xval is not None:
            xin = xval          # the held input is sampled by the new branch
        if inst.f == "AddKey" and first and xval is None:
            inst.x = None
        ticked, err = inst.cycle(t, xin, None, first=first or key_tick)
        if ticked:
            out_stream.append((t, inst.out))
    return out_stream, error_at, instances


SET_BRANCHES = ("SumDelta", "NegSumDelta", "SumValue")


def gen_set_writer(rng, wid, end):
    """TSS<Int> writer whose every delta has an effect (added elements are new, removed ones present): partial ticks of a set
    that already holds other elements"""
    cur = set()
    script = {}
    t = rng.choice((0, 0, 1, 2))
    for _ in range(rng.randint(3, 10)):
        if t >= end:
            break
        added = set(rng.sample([x for x in range(1, 30) if x not in cur], rng.choice((1, 1, 2, 3))))
        removed = set(rng.sample(sorted(cur), min(len(cur), rng.choice((0, 0, 1, 2))))) if cur else set()
        cur = (cur - removed) | added
        script[t] = [["d", coll.jd({"added": sorted(added), "removed": sorted(removed)})]]
        t += rng.choice((1, 1, 1, 2, 3))
    return dict(id=wid, shape="TSS", script=script)


def set_switch_model(sc, spec, end):
    """switch_ over a set-valued held input: a freshly selected branch sees the whole current set as its first delta"""
    w = {x["id"]: x for x in sc["writers"]}
    keys = dict(ho.ts_history(w[spec["key"]]))
    deltas = {int(t): json.loads(ops[-1][1]) for t, ops in w[spec["s"]]["script"].items()}
    cur = None
    inst = None
    cur_key = None
    out = []
    instances = 0
    for t in range(end):
        d = deltas.get(t)
        if d is not None:
            cur = ((cur or set()) - set(d["removed"])) | set(d["added"])
        kt = keys.get(t)
        first = False
        if kt is not None and (kt != cur_key or spec.get("reload")):
            cur_key = kt
            inst = dict(f=spec["cases"][str(kt)], state=0)
            instances += 1
            first = True
        if inst is None or cur is None or not (first or d is not None):
            continue
        if first:
            inst["state"] = sum(cur)
        else:
            inst["state"] += sum(d["added"]) - sum(d["removed"])
        f = inst["f"]
        out.append((t, inst["state"] if f == "SumDelta" else -inst["state"] if f == "NegSumDelta" else sum(cur) + 100000))
    return out, None, instances


class C12:
    id = "C12"
    level = "exploration"
    quick_runs = 1500
    quick_budget_s = 150
    thorough_budget_s = 900
    san = False
    rule = ("switch_(key, cases[, default], x) with branches from {AddOne, Accum (stateful), Chain (two stateful nodes), TickAfter (self-scheduling), AddKey "
            "(key-consuming), ConstSource (ignores its input)}, with and without a default branch, with and without reload-on-tick; key histories with "
            "rapid flips on consecutive steps, a flip in the same cycle as an input tick, return to an earlier key (third and later switches reuse a "
            "slot), re-tick of the same key, unmatched key without default. Oracle (reference model): the output stream equals the concatenation of "
            "fresh solo instances - on a key change the new branch starts with initial state, is evaluated in that cycle on the current value of the "
            "held input, and from then on the output is that branch's solo stream; the previous branch's user code never runs again and its pending "
            "timers never surface; re-selecting an earlier key gives a new child graph instance; an unmatched key without default makes run() throw. "
            "non-trivial = >= 2 key changes and >= 3 output ticks; distinct = distinct (cases, histories)"
            " Round 3: 15% of the runs switch over a set-valued held input with delta-driven branches (running sum of added minus removed): a fresh branch sees the whole current set as its first delta, also when the set ticks in the flip cycle.")
    assumptions = ["branch solo streams come from the Python models of the library functions (sim/ho.py FnModel)"]

    def gen(self, seed):
        rng = random.Random(seed)
        end = rng.choice((10, 16, 24))
        nk = rng.randint(2, 3)
        if random.Random(seed ^ 0x5E7).random() < 0.15:
            # a set-valued held input and delta-driven branches: a flip in the cycle of a partial tick of the set
            cases = {str(k): rng.choice(SET_BRANCHES) for k in range(1, nk + 1)}
            kw = ho.gen_ts_writer(rng, 1, end, values=list(range(1, nk + 1)), dense=rng.random() < 0.5)
            sw = gen_set_writer(rng, 2, end)
            reload_ = 1 if rng.random() < 0.2 else 0
            stmt = "switch 10 key=1 cases=%s%s s=2" % (",".join("%s:%s" % kv for kv in sorted(cases.items())), " reload=1" if reload_ else "")
            return dict(sc=dict(window=(0, end), writers=[kw, sw], stmts=[stmt, "cons 11 10"]), spec=dict(key=1, s=2, cases=cases, default=None, reload=reload_))
        cases = {str(k): rng.choice(BRANCHES) for k in range(1, nk + 1)}
        default = rng.choice((None, None, "AddOne", "Accum"))
        # with a default branch: two different keys without a case of their own (both select the default, a change between
        # them is still a key change: fresh instance)
        key_values = list(range(1, nk + 1)) + ([9, 8, 9, 8] if default else ([9] if rng.random() < 0.08 else []))
        kw = ho.gen_ts_writer(rng, 1, end, values=key_values, dense=rng.random() < 0.4)
        xw = ho.gen_ts_writer(rng, 2, end, dense=rng.random() < 0.5)
        reload_ = 1 if rng.random() < 0.2 else 0
        stmt = "switch 10 key=1 cases=%s%s%s x=2" % (",".join("%s:%s" % kv for kv in sorted(cases.items())),
                                                     " default=%s" % default if default else "", " reload=1" if reload_ else "")
        return dict(sc=dict(window=(0, end), writers=[kw, xw], stmts=[stmt, "cons 11 10"]),
                    spec=dict(key=1, x=2, cases=cases, default=default, reload=reload_))

    def run(self, case, fresh=False):
        sc = ho.normalise(case["sc"])
        text = ho.emit(sc)
        res = runner.run_fresh(text, san=self.san) if fresh else runner.run(text, san=self.san)
        if not res.ok:
            if res.timeout:
                return Outcome(harness_error="timeout", sample=text)
            return Outcome(violation=dict(clause="crash", detail="harness status=%s signal=%s tail=%s" % (res.status, res.signal, res.raw[-300:])), digest=res.digest, sample=dict(scenario=text))
        for e in res.events:
            if e["k"] in ("wire_error", "harness_error"):
                return Outcome(harness_error="%s: %s" % (e["k"], e.get("what")), sample=text)
        sample = dict(scenario=text, log_head=res.raw[:800])
        if len(sc["writers"]) < 2:
            return Outcome(stats={}, digest=res.digest, nontrivial=False, sample=sample)
        end = sc["window"][1]
        exp, error_at, instances = (set_switch_model if case["spec"].get("s") else switch_model)(sc, case["spec"], end)
        ran = [e for e in res.events if e["k"] == "ran"]
        stats = dict(key_changes=instances, output_ticks=0, probe_unmatched_key=0, probe_return_to_earlier_key=0, probe_flip_with_input_tick=0,
                     child_graph_instances=sum(1 for e in res.events if e["k"] == "gstart" and e["g"] > 0), simulated_time_us=end)
        v = None
        got = [(e["t"], e["i"]["val"]) for e in res.events if e["k"] == "C" and e["id"] == 11 and e["i"] is not None and e["i"]["v"]]
        stats["output_ticks"] = len(got)
        if error_at is not None:
            stats["probe_unmatched_key"] = 1
            if not ran or ran[0]["run"] != "threw":
                v = ("unmatched_key_not_an_error", "key without a case and no default branch at t=%d, but run() returned normally" % error_at)
            got = [g for g in got if g[0] < error_at]
            exp = [g for g in exp if g[0] < error_at]
        elif not ran or ran[0]["run"] != "ok":
            v = ("run_threw", ran[0].get("what", "")[:400] if ran else "no ran event")
        if not v and got != exp:
            v = ("switch_stream", "output %s; the selected branches alone give %s (cases %s default %s reload %s)" % (
                got[:14], exp[:14], case["spec"]["cases"], case["spec"]["default"], case["spec"]["reload"]))
        if not v and error_at is None:
            # a new child graph instance per selection (incl. re-selection of an earlier key)
            if stats["child_graph_instances"] != instances:
                v = ("branch_instances", "%d selections in the model, %d child graph instances started" % (instances, stats["child_graph_instances"]))
        if not v and error_at is None:
            # the de-selected branch receives no further evaluations: every user-code evaluation inside the switch belongs to
            # the function selected at that time
            logs = {"AddOne": {"AddOne"}, "Accum": {"Accum"}, "Chain": {"Accum", "AddOne"}, "TickAfter": {"TickAfter"}, "AddKey": {"AddKey"},
                    "ConstSource": {"ConstSource"}, "SumDelta": {"SumDelta"}, "NegSumDelta": {"NegSumDelta"}, "SumValue": {"SumValue"}}
            khist = ho.ts_history([w for w in sc["writers"] if w["id"] == 1][0])
            sel = {}
            cur_key = None
            for t, k in khist:
                if k != cur_key or case["spec"].get("reload"):
                    cur_key = k
                    sel[t] = case["spec"]["cases"].get(str(k), case["spec"].get("default"))
            for e in res.events:
                if e["k"] == "h" and e["e"] == "ev":
                    active = None
                    for t in sorted(sel):
                        if t <= e["t"]:
                            active = sel[t]
                    if active is None or e["f"] not in logs.get(active, set()):
                        v = ("deselected_branch_evaluated", "t=%d user code of %s ran inside the switch while the selected branch is %s" % (e["t"], e["f"], active))
                        break
        keys = [k for (_, k) in ho.ts_history([w for w in sc["writers"] if w["id"] == 1][0])]
        seen = []
        for a, b in zip(keys, keys[1:]):
            if b != a and b in seen:
                stats["probe_return_to_earlier_key"] += 1
            seen.append(a)
        return Outcome(violation=dict(clause=v[0], detail=v[1]) if v else None, stats=stats, digest=res.digest,
                       nontrivial=instances >= 2 and len(got) >= 3, sample=sample, shape=runner.h64(text))

    def shrink(self, case):
        sc = ho.normalise(case["sc"])
        for i, w in enumerate(sc["writers"]):
            for off in sorted(w["script"]):
                if len(w["script"]) > 1:
                    q = copy.deepcopy(sc)
                    del q["writers"][i]["script"][off]
                    yield dict(case, sc=q)


PROPERTY = C12()
