"""Writes /verif/MANIFEST.json from the table below (kept in one place so the manifest stays valid)."""
import json
import os

VERIF = os.path.dirname(os.path.dirname(os.path.abspath(__file__)))

TECH = "deterministic simulation with fault injection: seeded search over programs/schedules/faults, executable reference model + history invariants"
CHECKS = {
    "C01": ("exploration", "3.C01", "Seeded search over wiring programs, statement orders and tick coincidences on the real wiring layer and simulation executor; every cycle of every run is checked against the program's own dependency relation, the compiled edge lists and the reference interpreter. Sampling, not proof: a clean batch is evidence that ranking and the evaluation scan respect dependencies for the shapes the generator reaches."),
    "C02": ("exploration", "3.C02", "Seeded search over wake-up schedules, run windows and wall-clock faults; cycle times are compared with a discrete-event reference model and every logged request must be honoured at exactly its time. Sampling of the schedule space; wall-clock independence is checked differentially on every case."),
    "C03": ("exploration", "3.C03", "Seeded search over programs built from the activity/validity vocabulary; each run is compared evaluation by evaluation (which user code ran, on which value/modified/valid triples, what it wrote) with an executable reference interpreter. Sampling of programs and input histories."),
    "C04": ("exploration", "3.C04", "Scripted writers over 22 time-series shapes are observed in every engine cycle - also the cycles in which nothing was written - by always-awake passive probes and by active consumers at different ranks; every reading (value, modified, valid, last-modified-time, delta accessors, per child) is compared with the write history and with the producer's own view. Seeded sampling of shapes and write histories."),
    "C05": ("exploration", "3.C05", "Seeded mutation histories (biased to cancelling, re-adding, slot-reusing and capacity-crossing mutations) over collection shapes; every tick read by direct, mirrored and lazy consumers is checked relationally (value = previous value + delta, added/removed disjoint and consistent with both values) and against a Python container model. Seeded sampling."),
    "C06": ("exploration", "3.C06", "Each seeded program is wired in several admissible statement orders and seeded with duplicated and near-duplicated sub-expressions and sinks; streams must be identical across orders and equal to the reference interpreter on the un-shared program, and the compiled node count may never fall below the number of statement classes that must stay distinct. Sampling of programs, orders and duplicate placements."),
    "C07": ("exploration", "3.C07", "Refinement against the system's own sequential behaviour: the fresh-process trace of a scenario is compared line by line with its trace after seeded process history, under builder reuse (incl. after failed runs), under wall-clock faults, and while 1-3 other executors run concurrently on simulated threads whose interleaving a seeded scheduler decides at every intercepted mutex operation and node evaluation. Sampling of scenarios, histories and interleavings; word-level races are out of reach. The thorough tier adds an instrumented pass of the concurrent section (pre-emption at function-call granularity, sampled site sweeps)."),
    "C08": ("exploration", "3.C08", "Seeded search over programs with one to three feedback edges and writer scripts; for every feedback the stream at the reader is compared with the stream at the bound producer shifted by exactly one MIN_TD, and the whole run with the reference interpreter. Sampling."),
    "C09": ("exploration", "3.C09", "Every case wires the same sub-graph definition inline and as a nested child at depth 1, 2 and 3 against the same inputs in one run; recorder streams must agree across the four variants and with the reference interpreter, and child graphs must be evaluated inside their parent's bracket at the parent's time. Sampling of definitions, scalars and inputs. Three genuine differences are recorded as known findings and reported as KNOWN-FINDING."),
    "C10": ("exploration", "3.C10", "Seeded key histories over a vocabulary of mapped functions (stateless, stateful, key-consuming, self-scheduling, failing, two multiplexed dictionaries, broadcast) drive the real map_ node; the output dictionary after every tick is compared with a key-set model built from per-key solo reference instances, errors must appear under the failing key only, and child start/stop hooks must pair with key add/remove. Seeded sampling."),
    "C11": ("exploration", "3.C11", "Seeded element histories over TSD and fixed TSL with operator, node and sub-graph combiners, with and without a non-identity zero; the result is probed in every engine cycle and compared with the fold over exactly the valid elements; every history is also run with its same-cycle operations permuted. Seeded sampling."),
    "C12": ("exploration", "3.C12", "Seeded key and input histories (rapid flips, flip together with an input tick, return to an earlier key, unmatched key) over a branch vocabulary; the output stream is compared with the concatenation of fresh solo reference instances of the selected branches, and every selection must start a new child graph instance. Seeded sampling."),
    "C13": ("exploration", "3.C13", "Two scripted targets and a scripted selector feed if_then_else over scalar, bundle, set and dictionary shapes; the result is read directly, below a nested pass-through, from an if_then_else inside a nested graph, and through the same selection made by switch_ (direct and reference-shaped branch terminals). A model of the sampled-rebind semantics decides for every cycle whether each consumer must (not) be evaluated and what value and delta it must read. Seeded sampling of relative timings."),
    "C14": ("fault_enumeration", "3.C14", "For each seeded program every single fault point (node x phase x occurrence<=3) is injected in its own run, plus seeded fault pairs, under cleanup_on_error on/off and request_stop; the complete lifecycle-observer history of each run is checked against start/stop pairing, order, exactly-once, no-evaluation-outside-lifetime, rollback and error-identity invariants. Exhaustive over single fault points per program; programs and pairs are sampled."),
    "C15": ("fault_enumeration", "3.C15", "For each seeded program with error capture (exception_time_series / try_except_) every subset of the capturing node's evaluation cycles (complete up to 5 evaluations) is made to throw; each run is compared with the fault-free run (independent streams unchanged), with the error-tick count/message rule and with the reference interpreter under the same fault plan; a quarter of the runs are keyed maps (exception_time_series over map_, per-key solo reference, error under the failing key only). Exhaustive over cycle subsets for small targets; programs are sampled."),
    "C16": ("exploration", "3.C16", "The real push-source node, sender and real-time executor run on simulated threads: a seeded scheduler chooses the running thread at every intercepted pthread mutex/condition-variable call, advances a simulated clock and injects stalls, spurious and late wake-ups, starvation and stop races. The recorded invoke/return/deliver history is checked for FIFO linearizability, exactly-once, capacity, justified refusals, bounded liveness and lost wake-ups (a forced time-out of the engine's wait while work is pending). Seeded sampling of interleavings (distinct decision-list hashes are counted), not enumeration. The thorough tier adds a pass on a build whose runtime translation units are compiled with -finstrument-functions, where the scheduler may also pre-empt at engine function entries; failing schedules are minimised as an explicit decision tape. The thorough tier adds a pass on a build whose runtime translation units are instrumented at function entry: seeded pre-emption inside engine code and systematic site sweeps (one run per call site entered while another thread was runnable)."),
    "C17": ("exploration", "3.C17", "The real real-time run loop on a simulated wall clock with scripted timers, wall-clock alarms, pushes, stop requests, slow evaluations and clock faults; time/ordering invariants over the recorded history (never early, every due wake-up delivered at its logical time, prompt stop, end-time termination, no lost wake-up, no deadlock). Seeded sampling of schedules and interleavings. The thorough tier adds the instrumented pass with site sweeps as for C16."),
    "C18": ("exploration", "3.C18", "Seeded operation sequences on the real NodeScheduler executed by scripted nodes inside running graphs; every query answer after every operation is compared with a pending-set reference model and every pending time must produce an evaluation at exactly that time. Sampling of operation sequences."),
    "C20": ("exploration", "3.C20", "For seeded tick histories over a 22-shape schema library the run records the stream, replays the recording in a second run and records again; buffers must be equal cycle for cycle, a capture/apply mirror must hold the writer's value at every tick. Seeded sampling of schemas and histories."),
}
NOTE = ("Trusted base: g++ 12 / libstdc++, the /verif harness vocabulary and reference models (sim/*.py), the interposition of pthread and clock_gettime; "
        "the C++ tree is compiled from /repo's working tree (120 of 122 TUs; time-zone provider and JSON operator family are stubs). The Python bridge is not executed.")
NA = {"C19": "not applicable to deterministic simulation with fault injection: operator resolution is a pure function of (registered overload set, argument type tuple, registration order); no clock, schedule, fault, I/O or second party is involved, so generating overload families would be input generation under another name (DESIGN.md section 3 C19)"}


def main():
    props = [json.loads(l) for l in open(os.path.join(VERIF, "properties.jsonl"))]
    checks = []
    na = []
    for p in props:
        pid = p["id"]
        if pid in CHECKS:
            level, ref, text = CHECKS[pid]
            checks.append(dict(property_id=pid, quick_cmd="./check %s --tier quick" % pid, thorough_cmd="./check %s --tier thorough" % pid,
                               evidence_file="evidence/%s.json" % pid, replay_cmd_template="./check %s --replay {path}" % pid,
                               engine="hgsim", level_claimed=dict(category=level, text=text, design_ref="DESIGN.md section " + ref),
                               level_note=NOTE, technique=TECH))
        else:
            na.append(dict(property_id=pid, reason=NA.get(pid, "check not built yet in this revision (planned, see DESIGN.md section 3)")))
    m = dict(version=1,
             setup_cmd="/venv/bin/python build/build.py --quiet",
             hooks=dict(guard="HGRAPH_VERIF", enable="none needed: no hooks were added to /repo; the build script would pass -DHGRAPH_VERIF=1 when HGRAPH_VERIF=1 is set",
                        baseline_off_cmd="cd /repo && /venv/bin/python -m pytest -ra -q -p no:cacheprovider --timeout=900 --continue-on-collection-errors",
                        source_commits=[], add_only=True),
             engines=[dict(name="hgsim", path="harness/", serves_properties=sorted(CHECKS),
                           kind_free_text="C++ scenario interpreter linked against objects compiled from /repo's working tree; deterministic thread/clock simulator by pthread/clock_gettime interposition; Python driver with seeded generators, reference models, shrinker")],
             checks=checks, not_applicable=na,
             notes="Checks rebuild changed translation units of /repo through a content-addressed object cache (.cache/, git-ignored). Exit 2 = harness error (never a verdict).")
    json.dump(m, open(os.path.join(VERIF, "MANIFEST.json"), "w"), indent=1)


if __name__ == "__main__":
    main()
