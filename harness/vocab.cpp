#include "vocab.h"

namespace hv
{
    void reset_all_tables()
    {
        ctx().src_script.clear();
        ctx().timer_script.clear();
        ctx().faults = FaultPlan{};
    }

    void reset_vocab_counters() { ctx().faults.count.clear(); }

    // k:op,op;k:op   op = +N[#tag] | @N[#tag] | u#tag | U | p#tag | r
    void parse_timer_script(long long id, const std::string &text)
    {
        auto &tab = ctx().timer_script[id];
        for (auto &grp : split(text, ';'))
        {
            if (grp.empty()) continue;
            auto colon = grp.find(':');
            if (colon == std::string::npos) throw std::invalid_argument("tscript: missing ':' in " + grp);
            long long k = std::stoll(grp.substr(0, colon));
            for (auto &o : split(grp.substr(colon + 1), ','))
            {
                if (o.empty()) continue;
                TimerOp op{};
                std::string body = o;
                auto h = o.find('#');
                if (h != std::string::npos) { op.tag = o.substr(h + 1); body = o.substr(0, h); }
                op.kind = body[0];
                if (op.kind == '+' || op.kind == '@') op.n = std::stoll(body.substr(1));
                else if (op.kind == 'u' && op.tag.empty()) op.kind = 'U';
                tab[k].push_back(op);
            }
        }
    }

    static void log_queries(Line &l, NodeScheduler &s)
    {
        l.raw("next", tstr(s.next_scheduled_time())).b("is", s.is_scheduled()).b("now", s.is_scheduled_now());
        std::string tags = "{";
        for (const char *tg : {"a", "b", "c"})
        {
            if (tags.size() > 1) tags += ",";
            tags += std::string("\"") + tg + "\":[" + (s.has_tag(tg) ? "1," : "0,") + tstr(s.tag_time(tg)) + "," +
                    (s.tag_is_scheduled_now(tg) ? "1" : "0") + "]";
        }
        tags += "}";
        l.raw("tags", tags);
    }

    void timer_run_ops(long long id, long long k, NodeScheduler &s, bool in_start)
    {
        {   // state as the node finds it on entry
            Line l("sq");
            l.i("id", id).i("t", off(s.now())).i("ek", k).b("in_start", in_start);
            log_queries(l, s);
            l.emit();
        }
        auto ti = ctx().timer_script.find(id);
        if (ti == ctx().timer_script.end()) return;
        auto ki = ti->second.find(k);
        if (ki == ti->second.end()) return;
        int n = 0;
        for (auto &op : ki->second)
        {
            std::optional<std::string> tag = op.tag.empty() ? std::nullopt : std::optional<std::string>(op.tag);
            Line l("sop");
            l.i("id", id).i("t", off(s.now())).i("ek", k).i("n", n++).b("in_start", in_start).str("op", std::string(1, op.kind)).i("arg", op.n).str("tag", op.tag);
            switch (op.kind)
            {
                case '+': s.schedule(MIN_TD * op.n, tag); break;
                case '@': s.schedule(at(op.n), tag); break;
                case 'u': s.un_schedule(op.tag); break;
                case 'U': s.un_schedule(); break;
                case 'p': l.raw("ret", tstr(s.pop_tag(op.tag))); break;
                case 'r': s.reset(); break;
                default: throw std::invalid_argument("tscript: unknown op");
            }
            log_queries(l, s);
            l.emit();
        }
    }

    void dump_global_state(GlobalStateView gs)
    {
        if (!gs.valid()) return;
        std::string text;
        try { text = gs.as_value().view().to_string(); } catch (const std::exception &e) { text = std::string("?") + e.what(); }
        Line("gs").str("v", text).emit();
    }
}  // namespace hv
