// Stand-in for src/hgraph/types/time_zone_provider.cpp (needs C++20 tzdb, unavailable offline). No property anchors there.
#include <hgraph/types/temporal.h>
#include <hgraph/runtime/global_state.h>
#include <stdexcept>
namespace hgraph {
  std::shared_ptr<const TimeZoneProvider> make_time_zone_provider() { throw std::logic_error("verif build: time-zone provider not available"); }
  const TimeZoneProvider& time_zone_provider(GlobalStateView) { throw std::logic_error("verif build: time-zone provider not available"); }
}
namespace hgraph { void clear_time_zone_provider_cache() noexcept {} }
// Stand-in for src/hgraph/lib/std/operators/json_impl.cpp (simdjson DOM unavailable offline): no JSON operators registered.
namespace hgraph::stdlib { void register_json_operators() {} }
#include <hgraph/lib/std/operators/impl/json_impl.h>
#include <compare>
// Only the three json_tree entry points that other operator families link against. With no JSON value type ever
// created in the harness, no time-series is a JSON time-series and generic comparison reduces to ValueView's own.
namespace hgraph::stdlib::json_tree {
    bool is_json_ts(const TSValueTypeMetaData *) noexcept { return false; }
    bool equals(const ValueView &lhs, const ValueView &rhs) { return lhs.equals(rhs); }
    std::partial_ordering compare(const ValueView &lhs, const ValueView &rhs) { return lhs.compare(rhs); }
}
