// mode collections: scripted writers over many time-series shapes, always-awake passive probes, active and lazy
// consumers, capture/apply mirrors, record and replay. Serves C04, C05, C20.
//
//   window <start> <end>
//   writer <id> shape=<S> [typed=1]              erased writer (JSON deltas through apply_delta) or typed writer (authoring mutators)
//   wscript <id> <off>|<op>|<op>...;<off>|...     ops: d=<json delta>  inv  (typed) add=x rem=x clear set=k:v del=k seti=i:v setf=a:v push=v
//   probe <id> <writer id> until=<off>            passive + Unchecked input, wakes itself every cycle, logs the full view
//   cons <id> <writer id> [every=<n>]             active Unchecked consumer; with every=n it reads its input only on each n-th tick
//   mirror <id> <writer id>                       out = apply_delta(capture_delta(in)); cons/probe may attach to a mirror id
//   record <key> <producer id>                    stdlib dense record into GlobalState[key]
//   replay <id> shape=<S> key=<key>               stdlib replay source
//   runs 2                                        second run: fresh executor whose builder GlobalState is seeded with run 1's
#include "common.h"

#include <hgraph/lib/std/operators/impl/record_replay_memory_impl.h>
#include <hgraph/lib/testing/record_replay_buffer.h>
#include <hgraph/types/time_series/ts_delta.h>
#include <hgraph/types/value/json_codec.h>

namespace hv
{
    using namespace hgraph;

    namespace
    {
        using B2 = TSB<"HvB2", Field<"a", TS<Int>>, Field<"b", TS<Int>>>;
        using BS = TSB<"HvBS", Field<"a", TS<Int>>, Field<"s", TSS<Int>>>;

        struct WOp { std::string kind; std::string arg; };
        std::map<long long, std::map<long long, std::vector<WOp>>> g_wscript;   // writer id -> offset -> ops

        std::string jstr(const ValueView &v)
        {
            try { return v.valid() ? to_json_string(v) : std::string("null"); }
            catch (const std::exception &e)
            {
                Line tmp("x"); tmp.s.clear(); tmp.str("e", std::string("!json:") + e.what());
                return tmp.s.substr(5);
            }
        }
        std::string keys_json(Range<ValueView> r)
        {
            std::vector<std::string> ks;
            for (auto &&k : r) ks.push_back(jstr(k));
            std::sort(ks.begin(), ks.end());
            std::string s = "[";
            for (size_t i = 0; i < ks.size(); ++i) { if (i) s += ","; s += ks[i]; }
            return s + "]";
        }

        // full description of what an input shows in this cycle
        std::string describe(const TSInputView &in, int depth = 0)
        {
            std::string s = "{";
            const bool valid = in.valid();
            const bool mod   = in.modified();
            s += std::string("\"v\":") + (valid ? "1" : "0") + ",\"m\":" + (mod ? "1" : "0") + ",\"av\":" + (in.all_valid() ? "1" : "0");
            const DateTime lmt = in.last_modified_time();
            s += ",\"lmt\":" + tstr(lmt);
            s += ",\"val\":" + (valid ? jstr(in.value()) : std::string("null"));
            // the per-tick delta as a reader obtains it (also asked for when nothing was written: it must show nothing)
            try
            {
                ValueView dv = in.delta_value();
                s += ",\"dv\":" + jstr(dv);
            }
            catch (const std::exception &e)
            {
                Line tmp("x"); tmp.s.clear(); tmp.str("e", std::string("!dv:") + e.what());
                s += ",\"dv\":" + tmp.s.substr(5);
            }
            try
            {
                Value d = capture_delta(in);
                s += ",\"d\":" + jstr(d.view());
            }
            catch (const std::exception &e)
            {
                Line tmp("x"); tmp.s.clear(); tmp.str("e", std::string("!delta:") + e.what());
                s += ",\"d\":" + tmp.s.substr(5);
            }
            const auto *schema = in.schema();
            if (schema != nullptr && depth < 3)
            {
                switch (schema->kind)
                {
                    case TSTypeKind::TSB:
                    {
                        auto b = in.as_bundle();
                        s += ",\"ch\":{";
                        bool first = true;
                        for (auto &&[name, child] : b.items())
                        {
                            if (!first) s += ",";
                            first = false;
                            s += "\"" + std::string(name) + "\":" + describe(child, depth + 1);
                        }
                        s += "}";
                        break;
                    }
                    case TSTypeKind::TSL:
                    {
                        auto l = in.as_list();
                        s += ",\"ch\":{";
                        for (size_t i = 0; i < l.size(); ++i)
                        {
                            if (i) s += ",";
                            s += "\"" + std::to_string(i) + "\":" + describe(l.at(i), depth + 1);
                        }
                        s += "}";
                        break;
                    }
                    case TSTypeKind::TSS:
                    {
                        auto ss = in.as_set();
                        s += ",\"added\":" + keys_json(ss.added()) + ",\"removed\":" + keys_json(ss.removed()) + ",\"size\":" + std::to_string(ss.size());
                        break;
                    }
                    case TSTypeKind::TSD:
                    {
                        auto d = in.as_dict();
                        s += ",\"added\":" + keys_json(d.added_keys()) + ",\"removed\":" + keys_json(d.removed_keys()) + ",\"modk\":" + keys_json(d.modified_keys()) +
                             ",\"size\":" + std::to_string(d.size());
                        std::vector<std::pair<std::string, std::string>> items;
                        for (auto &&[k, child] : d.items()) items.emplace_back(jstr(k), describe(child, depth + 1));
                        std::sort(items.begin(), items.end());
                        s += ",\"ch\":{";
                        for (size_t i = 0; i < items.size(); ++i)
                        {
                            if (i) s += ",";
                            const std::string &k = items[i].first;
                            s += (k.size() && k[0] == '"' ? k : "\"" + k + "\"") + ":" + items[i].second;
                        }
                        s += "}";
                        break;
                    }
                    case TSTypeKind::TSW:
                    {
                        auto w = in.as_window();
                        s += ",\"size\":" + std::to_string(w.size());
                        break;
                    }
                    default: break;
                }
            }
            return s + "}";
        }

        std::string describe_out(const TSOutputView &o)
        {
            std::string s = "{";
            s += std::string("\"v\":") + (o.valid() ? "1" : "0") + ",\"m\":" + (o.modified() ? "1" : "0") + ",\"lmt\":" + tstr(o.last_modified_time());
            s += ",\"val\":" + (o.valid() ? jstr(o.value()) : std::string("null"));
            return s + "}";
        }

        template <typename O>
        const TSOutputView &base_of(const O &o)
        {
            if constexpr (std::is_base_of_v<TSOutputView, O>) return o;
            else return o.base();
        }

        void arm_writer(long long id, NodeScheduler &s, DateTime now, bool in_start)
        {
            auto &sc = g_wscript[id];
            auto it  = in_start ? sc.lower_bound(off(now)) : sc.upper_bound(off(now));
            if (it != sc.end()) s.schedule(at(it->first));
        }

        // erased writer: JSON deltas through the tree's own codec + apply_delta
        struct CWriter
        {
            static constexpr auto name = "hv_cwriter";
            static void start(Scalar<"id", Int> id, NodeScheduler s) { arm_writer(id.value(), s, s.now(), true); }
            static void eval(Scalar<"id", Int> id, NodeScheduler s, DateTime now, Out<TsVar<"S">> out)
            {
                const TSOutputView &o = out;
                auto &sc = g_wscript[id.value()];
                auto it  = sc.find(off(now));
                if (it != sc.end())
                {
                    for (auto &op : it->second)
                    {
                        if (op.kind == "d")
                        {
                            Value d = from_json_string(o.schema()->delta_value_schema, op.arg);
                            apply_delta(o, d.view());
                        }
                        else if (op.kind == "inv")
                        {
                            auto m = o.begin_mutation(now);
                            static_cast<void>(m.invalidate());
                        }
                        else throw std::invalid_argument("cwriter: op " + op.kind);
                    }
                }
                Line("W").i("id", id.value()).i("t", off(now)).raw("o", describe_out(o)).emit();
                arm_writer(id.value(), s, now, false);
            }
        };

        // typed writers: the authoring API's own mutators
        template <typename S, typename Apply>
        void typed_eval(long long id, NodeScheduler &s, DateTime now, Out<S> &out, Apply &&apply)
        {
            auto &sc = g_wscript[id];
            auto it  = sc.find(off(now));
            if (it != sc.end())
                for (auto &op : it->second) apply(op);
            const TSOutputView &o = base_of(out);
            Line("W").i("id", id).i("t", off(now)).raw("o", describe_out(o)).emit();
            arm_writer(id, s, now, false);
        }
        long long num(const std::string &s) { return std::stoll(s); }
        std::pair<std::string, long long> kv(const std::string &s)
        {
            auto c = s.find(':');
            return {s.substr(0, c), std::stoll(s.substr(c + 1))};
        }
        struct TWScalar
        {
            static constexpr auto name = "hv_tw_scalar";
            static void start(Scalar<"id", Int> id, NodeScheduler s) { arm_writer(id.value(), s, s.now(), true); }
            static void eval(Scalar<"id", Int> id, NodeScheduler s, DateTime now, Out<TS<Int>> out)
            {
                typed_eval(id.value(), s, now, out, [&](const WOp &op) {
                    if (op.kind == "set") out.set(Int{num(op.arg)});
                    else if (op.kind == "inv") { const TSOutputView &o = base_of(out); static_cast<void>(o.begin_mutation(now).invalidate()); }
                    else throw std::invalid_argument("tw_scalar: op " + op.kind);
                });
            }
        };
        struct TWSet
        {
            static constexpr auto name = "hv_tw_set";
            static void start(Scalar<"id", Int> id, NodeScheduler s) { arm_writer(id.value(), s, s.now(), true); }
            static void eval(Scalar<"id", Int> id, NodeScheduler s, DateTime now, Out<TSS<Int>> out)
            {
                typed_eval(id.value(), s, now, out, [&](const WOp &op) {
                    if (op.kind == "add") out.add(Int{num(op.arg)});
                    else if (op.kind == "rem") out.remove(Int{num(op.arg)});
                    else if (op.kind == "clear") out.clear();
                    else throw std::invalid_argument("tw_set: op " + op.kind);
                });
            }
        };
        struct TWDict
        {
            static constexpr auto name = "hv_tw_dict";
            static void start(Scalar<"id", Int> id, NodeScheduler s) { arm_writer(id.value(), s, s.now(), true); }
            static void eval(Scalar<"id", Int> id, NodeScheduler s, DateTime now, Out<TSD<Int, TS<Int>>> out)
            {
                typed_eval(id.value(), s, now, out, [&](const WOp &op) {
                    if (op.kind == "set") { auto p = kv(op.arg); out[Int{num(p.first)}].set(Int{p.second}); }
                    else if (op.kind == "del")
                    {
                        auto m = static_cast<const TSDOutputView &>(out).begin_mutation(now);
                        Value k{Int{num(op.arg)}};
                        static_cast<void>(m.erase(k.view()));
                    }
                    else if (op.kind == "clear") { auto m = static_cast<const TSDOutputView &>(out).begin_mutation(now); m.clear(); }
                    else throw std::invalid_argument("tw_dict: op " + op.kind);
                });
            }
        };
        struct TWList
        {
            static constexpr auto name = "hv_tw_list";
            static void start(Scalar<"id", Int> id, NodeScheduler s) { arm_writer(id.value(), s, s.now(), true); }
            static void eval(Scalar<"id", Int> id, NodeScheduler s, DateTime now, Out<TSL<TS<Int>, 3>> out)
            {
                typed_eval(id.value(), s, now, out, [&](const WOp &op) {
                    if (op.kind == "seti") { auto p = kv(op.arg); out[static_cast<size_t>(num(p.first))].set(Int{p.second}); }
                    else throw std::invalid_argument("tw_list: op " + op.kind);
                });
            }
        };
        struct TWBundle
        {
            static constexpr auto name = "hv_tw_bundle";
            static void start(Scalar<"id", Int> id, NodeScheduler s) { arm_writer(id.value(), s, s.now(), true); }
            static void eval(Scalar<"id", Int> id, NodeScheduler s, DateTime now, Out<B2> out)
            {
                typed_eval(id.value(), s, now, out, [&](const WOp &op) {
                    if (op.kind == "setf")
                    {
                        auto p = kv(op.arg);
                        if (p.first == "a") out.template field<"a">().set(Int{p.second});
                        else out.template field<"b">().set(Int{p.second});
                    }
                    else throw std::invalid_argument("tw_bundle: op " + op.kind);
                });
            }
        };
        struct TWWin
        {
            static constexpr auto name = "hv_tw_win";
            static void start(Scalar<"id", Int> id, NodeScheduler s) { arm_writer(id.value(), s, s.now(), true); }
            static void eval(Scalar<"id", Int> id, NodeScheduler s, DateTime now, Out<TSW<Int, 3, 2>> out)
            {
                typed_eval(id.value(), s, now, out, [&](const WOp &op) {
                    if (op.kind == "push") out.push(Int{num(op.arg)});
                    else throw std::invalid_argument("tw_win: op " + op.kind);
                });
            }
        };

        struct CProbe
        {   // always awake, never woken by its input: flags are also read in the cycles where nothing happened
            static constexpr auto name              = "hv_cprobe";
            static constexpr bool schedule_on_start = true;
            static void eval(In<"ts", TsVar<"S">, InputActivity::Passive, InputValidity::Unchecked> ts, Scalar<"id", Int> id, Scalar<"until", Int> until,
                             NodeScheduler s, DateTime now)
            {
                const TSInputView &i = ts;
                Line("P").i("id", id.value()).i("t", off(now)).raw("i", describe(i)).emit();
                if (off(now) < until.value()) s.schedule(MIN_TD);
            }
        };
        struct CCons
        {   // active consumer; reads (and so possibly triggers lazy clean-up) only on each n-th evaluation
            static constexpr auto name = "hv_ccons";
            static void start(State<Int> n) { n.set(Int{0}); }
            static void eval(In<"ts", TsVar<"S">, InputValidity::Unchecked> ts, Scalar<"id", Int> id, Scalar<"every", Int> every, State<Int> n, DateTime now)
            {
                n.set(n.get() + 1);
                if (every.value() > 1 && n.get() % every.value() != 0)
                {
                    Line("C").i("id", id.value()).i("t", off(now)).raw("i", "null").emit();
                    return;
                }
                const TSInputView &i = ts;
                Line("C").i("id", id.value()).i("t", off(now)).raw("i", describe(i)).emit();
            }
        };
        struct CMirror
        {
            static constexpr auto name = "hv_cmirror";
            // Unchecked: a window below its minimum count is not valid yet but its pushes must still be mirrored
            static void eval(In<"ts", TsVar<"S">, InputValidity::Unchecked> ts, Scalar<"id", Int> id, DateTime now, Out<TsVar<"S">> out)
            {
                if (!ts.base().modified()) return;
                Value d = capture_delta(ts.base());
                apply_delta(out, d.view());
                const TSOutputView &o = out;
                Line("M").i("id", id.value()).i("t", off(now)).raw("d", jstr(d.view())).raw("o", describe_out(o)).emit();
            }
        };

        const Scenario *g_csc = nullptr;
        int g_run_index = 0;

        template <typename S>
        Port<void> wire_writer_erased(Wiring &w, long long id) { return Port<void>{wire<CWriter, S>(w, Int{id}).erased()}; }

        WiringPortRef make_writer(Wiring &w, const std::string &shape, long long id, bool typed)
        {
            if (typed)
            {
                if (shape == "TS") return wire<TWScalar>(w, Int{id}).erased();
                if (shape == "TSS") return wire<TWSet>(w, Int{id}).erased();
                if (shape == "TSD") return wire<TWDict>(w, Int{id}).erased();
                if (shape == "TSL") return wire<TWList>(w, Int{id}).erased();
                if (shape == "TSB") return wire<TWBundle>(w, Int{id}).erased();
                if (shape == "TSW") return wire<TWWin>(w, Int{id}).erased();
                throw std::invalid_argument("collections: no typed writer for shape " + shape);
            }
            if (shape == "TS") return wire<CWriter, TS<Int>>(w, Int{id}).erased();
            if (shape == "TSStr") return wire<CWriter, TS<Str>>(w, Int{id}).erased();
            if (shape == "SIGNAL") return wire<CWriter, SIGNAL>(w, Int{id}).erased();
            if (shape == "TSS") return wire<CWriter, TSS<Int>>(w, Int{id}).erased();
            if (shape == "TSSStr") return wire<CWriter, TSS<Str>>(w, Int{id}).erased();
            if (shape == "TSD") return wire<CWriter, TSD<Int, TS<Int>>>(w, Int{id}).erased();
            if (shape == "TSDStr") return wire<CWriter, TSD<Str, TS<Int>>>(w, Int{id}).erased();
            if (shape == "TSL") return wire<CWriter, TSL<TS<Int>, 3>>(w, Int{id}).erased();
            if (shape == "TSB") return wire<CWriter, B2>(w, Int{id}).erased();
            if (shape == "TSBS") return wire<CWriter, BS>(w, Int{id}).erased();
            if (shape == "TSW") return wire<CWriter, TSW<Int, 3, 2>>(w, Int{id}).erased();
            if (shape == "TSDB") return wire<CWriter, TSD<Int, B2>>(w, Int{id}).erased();
            if (shape == "TSDD") return wire<CWriter, TSD<Int, TSD<Int, TS<Int>>>>(w, Int{id}).erased();
            if (shape == "TSDS") return wire<CWriter, TSD<Int, TSS<Int>>>(w, Int{id}).erased();
            if (shape == "TSLS") return wire<CWriter, TSL<TSS<Int>, 2>>(w, Int{id}).erased();
            if (shape == "TSDL") return wire<CWriter, TSD<Str, TSL<TS<Int>, 2>>>(w, Int{id}).erased();
            throw std::invalid_argument("collections: unknown shape " + shape);
        }

        template <typename S>
        void attach(Wiring &w, const std::string &what, const Stmt &st, Port<S> p, std::map<long long, WiringPortRef> &ports)
        {
            if (what == "probe") wire<CProbe>(w, p, Int{std::stoll(st.tok.at(1))}, Int{st.geti("until", 20)});
            else if (what == "cons") wire<CCons>(w, p, Int{std::stoll(st.tok.at(1))}, Int{st.geti("every", 1)});
            else if (what == "mirror") ports[std::stoll(st.tok.at(1))] = wire<CMirror>(w, p, Int{std::stoll(st.tok.at(1))}).erased();
            else if (what == "record") wire<stdlib::dense_record_impl>(w, p, Str{st.tok.at(1)});
        }

        template <typename Fn>
        void with_shape(const std::string &shape, Wiring &w, const WiringPortRef &ref, Fn &&fn)
        {
            if (shape == "TS") fn(Port<TS<Int>>{w, ref});
            else if (shape == "TSStr") fn(Port<TS<Str>>{w, ref});
            else if (shape == "SIGNAL") fn(Port<SIGNAL>{w, ref});
            else if (shape == "TSS") fn(Port<TSS<Int>>{w, ref});
            else if (shape == "TSSStr") fn(Port<TSS<Str>>{w, ref});
            else if (shape == "TSD") fn(Port<TSD<Int, TS<Int>>>{w, ref});
            else if (shape == "TSDStr") fn(Port<TSD<Str, TS<Int>>>{w, ref});
            else if (shape == "TSL") fn(Port<TSL<TS<Int>, 3>>{w, ref});
            else if (shape == "TSB") fn(Port<B2>{w, ref});
            else if (shape == "TSBS") fn(Port<BS>{w, ref});
            else if (shape == "TSW") fn(Port<TSW<Int, 3, 2>>{w, ref});
            else if (shape == "TSDB") fn(Port<TSD<Int, B2>>{w, ref});
            else if (shape == "TSDD") fn(Port<TSD<Int, TSD<Int, TS<Int>>>>{w, ref});
            else if (shape == "TSDS") fn(Port<TSD<Int, TSS<Int>>>{w, ref});
            else if (shape == "TSLS") fn(Port<TSL<TSS<Int>, 2>>{w, ref});
            else if (shape == "TSDL") fn(Port<TSD<Str, TSL<TS<Int>, 2>>>{w, ref});
            else throw std::invalid_argument("collections: unknown shape " + shape);
        }

        template <typename S>
        WiringPortRef wire_replay(Wiring &w, const std::string &key) { return wire<stdlib::replay_impl, S>(w, Str{key}).erased(); }

        WiringPortRef make_replay(Wiring &w, const std::string &shape, const std::string &key)
        {
            WiringPortRef out;
            if (shape == "TS") return wire_replay<TS<Int>>(w, key);
            if (shape == "TSStr") return wire_replay<TS<Str>>(w, key);
            if (shape == "SIGNAL") return wire_replay<SIGNAL>(w, key);
            if (shape == "TSS") return wire_replay<TSS<Int>>(w, key);
            if (shape == "TSSStr") return wire_replay<TSS<Str>>(w, key);
            if (shape == "TSD") return wire_replay<TSD<Int, TS<Int>>>(w, key);
            if (shape == "TSDStr") return wire_replay<TSD<Str, TS<Int>>>(w, key);
            if (shape == "TSL") return wire_replay<TSL<TS<Int>, 3>>(w, key);
            if (shape == "TSB") return wire_replay<B2>(w, key);
            if (shape == "TSBS") return wire_replay<BS>(w, key);
            if (shape == "TSW") return wire_replay<TSW<Int, 3, 2>>(w, key);
            if (shape == "TSDB") return wire_replay<TSD<Int, B2>>(w, key);
            if (shape == "TSDD") return wire_replay<TSD<Int, TSD<Int, TS<Int>>>>(w, key);
            if (shape == "TSDS") return wire_replay<TSD<Int, TSS<Int>>>(w, key);
            if (shape == "TSLS") return wire_replay<TSL<TSS<Int>, 2>>(w, key);
            if (shape == "TSDL") return wire_replay<TSD<Str, TSL<TS<Int>, 2>>>(w, key);
            throw std::invalid_argument("collections: unknown shape " + shape);
        }

        struct CRoot
        {
            static constexpr auto name = "hv_croot";
            static void compose(Wiring &w)
            {
                std::map<long long, WiringPortRef> ports;
                std::map<long long, std::string> shapes;
                for (auto &st : g_csc->stmts)
                {
                    const auto &k = st.tok[0];
                    const int run = static_cast<int>(st.geti("run", 0));
                    if (st.has("run") && run != g_run_index) continue;
                    if (k == "writer")
                    {
                        long long id = std::stoll(st.tok.at(1));
                        shapes[id]   = st.get("shape");
                        ports[id]    = make_writer(w, st.get("shape"), id, st.geti("typed", 0) != 0);
                    }
                    else if (k == "replay")
                    {
                        long long id = std::stoll(st.tok.at(1));
                        shapes[id]   = st.get("shape");
                        ports[id]    = make_replay(w, st.get("shape"), st.get("key"));
                    }
                    else if (k == "probe" || k == "cons" || k == "mirror" || k == "record")
                    {
                        long long src = std::stoll(st.tok.at(2));
                        auto it = ports.find(src);
                        if (it == ports.end()) throw std::invalid_argument("collections: unknown producer " + st.tok.at(2));
                        const std::string shape = shapes.at(src);
                        if (k == "mirror") shapes[std::stoll(st.tok.at(1))] = shape;
                        const WiringPortRef ref = it->second;
                        with_shape(shape, w, ref, [&](auto port) { attach(w, k, st, port, ports); });
                    }
                }
            }
        };
    }  // namespace

    int run_collections(const Scenario &sc)
    {
        g_csc = &sc;
        long long start_off = 0, end_off = 30;
        int runs = 1;
        g_wscript.clear();
        for (auto &st : sc.stmts)
        {
            const auto &k = st.tok[0];
            if (k == "window") { start_off = std::stoll(st.tok.at(1)); end_off = std::stoll(st.tok.at(2)); }
            else if (k == "runs") runs = std::stoi(st.tok.at(1));
            else if (k == "wscript")
            {   // wscript <id> <text>: groups separated by ';;', ops by '|'; first field of a group is the offset
                long long id = std::stoll(st.tok.at(1));
                std::string text = st.text.substr(st.text.find(st.tok.at(1), st.text.find("wscript") + 7) + st.tok.at(1).size());
                size_t pos = 0;
                while (pos < text.size())
                {
                    size_t e = text.find(";;", pos);
                    std::string grp = text.substr(pos, e == std::string::npos ? std::string::npos : e - pos);
                    pos = e == std::string::npos ? text.size() : e + 2;
                    // trim
                    while (!grp.empty() && grp.front() == ' ') grp.erase(grp.begin());
                    while (!grp.empty() && grp.back() == ' ') grp.pop_back();
                    if (grp.empty()) continue;
                    auto parts = split(grp, '|');
                    long long o = std::stoll(parts.at(0));
                    auto &ops = g_wscript[id][o];
                    for (size_t i = 1; i < parts.size(); ++i)
                    {
                        auto eq = parts[i].find('=');
                        if (eq == std::string::npos) ops.push_back({parts[i], ""});
                        else ops.push_back({parts[i].substr(0, eq), parts[i].substr(eq + 1)});
                    }
                }
            }
        }
        clock_fault_config(1, 0, 0, false);
        Observer obs;
        obs.log_lifecycle = false;
        obs.log_node_eval = false;
        GlobalState carried;
        bool have_carried = false;
        for (int r = 0; r < runs; ++r)
        {
            g_run_index = r;
            Line("run").i("r", r).emit();
            GraphBuilder gb;
            try { gb = build_graph<CRoot>(); }
            catch (const std::exception &e)
            {
                Line("wire_error").str("what", e.what()).emit();
                Line("end").str("run", "wire_error").emit();
                return 0;
            }
            if (have_carried) gb.global_state().copy_from(carried.view());
            obs.gid.clear();
            obs.next_gid = 0;
            GraphExecutorBuilder eb;
            eb.graph_builder(std::move(gb)).start_time(at(start_off)).end_time(at(end_off)).add_lifecycle_observer(&obs);
            auto ex = eb.make_executor();
            try
            {
                ex.view().run();
                Line("ran").str("run", "ok").emit();
            }
            catch (const std::exception &e)
            {
                Line("ran").str("run", "threw").str("what", e.what()).emit();
            }
            GlobalStateView gs = ex.view().graph().global_state();
            // recorded buffers, through the tree's own codec
            for (auto &st : sc.stmts)
            {
                if (st.tok[0] == "record" && (!st.has("run") || st.geti("run") == r))
                {
                    const std::string key = st.tok.at(1);
                    std::string v = "null";
                    if (gs.contains(key))
                    {
                        // a dense buffer: one entry per engine cycle since MIN_ST, holes are unset elements
                        auto list = gs.get(key).as_list();
                        v         = "[";
                        for (size_t i = 0; i < list.size(); ++i)
                        {
                            if (i) v += ",";
                            auto d = testing::dense_entry_delta(list, i);
                            v += d.has_value() ? jstr(d->view()) : std::string("null");
                        }
                        v += "]";
                    }
                    Line("buf").i("r", r).str("key", key).raw("v", v).emit();
                }
            }
            carried.view().copy_from(gs);
            have_carried = true;
        }
        Line("end").str("run", "done").emit();
        return 0;
    }
}  // namespace hv
