// mode collections: scripted writers over many time-series shapes, always-awake passive probes, active and lazy
// consumers, capture/apply mirrors, record and replay. Serves C04, C05, C20.
//
//   window <start> <end>
//   writer <id> shape=<S> [typed=1]              erased writer (JSON deltas through apply_delta) or typed writer (authoring mutators)
//   wscript <id> <off>|<op>|<op>...;<off>|...     ops: d=<json delta>  inv  (typed) add=x rem=x clear set=k:v del=k seti=i:v setf=a:v push=v
//   probe <id> <writer id> until=<off>            passive + Unchecked input, wakes itself every cycle, logs the full view
//   cons <id> <writer id> [every=<n>]             active Unchecked consumer; with every=n it reads its input only on each n-th tick
//   mirror <id> <writer id>                       out = apply_delta(capture_delta(in)); cons/probe may attach to a mirror id
//   record <key> <producer id>                    stdlib dense record into GlobalState[key]
//   replay <id> shape=<S> key=<key>               stdlib replay source
//   runs 2                                        second run: fresh executor whose builder GlobalState is seeded with run 1's
#include "collvocab.h"

#include <hgraph/lib/std/operators/impl/record_replay_memory_impl.h>
#include <hgraph/lib/testing/record_replay_buffer.h>
#include <hgraph/types/time_series/ts_delta.h>
#include <hgraph/types/value/json_codec.h>

namespace hv
{
    using namespace hgraph;

    using namespace cv;

    namespace
    {
        const Scenario *g_csc = nullptr;
        int g_run_index = 0;

        template <typename S>
        Port<void> wire_writer_erased(Wiring &w, long long id) { return Port<void>{wire<CWriter, S>(w, Int{id}).erased()}; }

        WiringPortRef make_writer(Wiring &w, const std::string &shape, long long id, bool typed)
        {
            if (typed)
            {
                if (shape == "TS") return wire<TWScalar>(w, Int{id}).erased();
                if (shape == "TSS") return wire<TWSet>(w, Int{id}).erased();
                if (shape == "TSD") return wire<TWDict>(w, Int{id}).erased();
                if (shape == "TSL") return wire<TWList>(w, Int{id}).erased();
                if (shape == "TSB") return wire<TWBundle>(w, Int{id}).erased();
                if (shape == "TSW") return wire<TWWin>(w, Int{id}).erased();
                throw std::invalid_argument("collections: no typed writer for shape " + shape);
            }
            if (shape == "TS") return wire<CWriter, TS<Int>>(w, Int{id}).erased();
            if (shape == "TSStr") return wire<CWriter, TS<Str>>(w, Int{id}).erased();
            if (shape == "SIGNAL") return wire<CWriter, SIGNAL>(w, Int{id}).erased();
            if (shape == "TSS") return wire<CWriter, TSS<Int>>(w, Int{id}).erased();
            if (shape == "TSSStr") return wire<CWriter, TSS<Str>>(w, Int{id}).erased();
            if (shape == "TSD") return wire<CWriter, TSD<Int, TS<Int>>>(w, Int{id}).erased();
            if (shape == "TSDStr") return wire<CWriter, TSD<Str, TS<Int>>>(w, Int{id}).erased();
            if (shape == "TSL") return wire<CWriter, TSL<TS<Int>, 3>>(w, Int{id}).erased();
            if (shape == "TSB") return wire<CWriter, B2>(w, Int{id}).erased();
            if (shape == "TSBS") return wire<CWriter, BS>(w, Int{id}).erased();
            if (shape == "TSW") return wire<CWriter, TSW<Int, 3, 2>>(w, Int{id}).erased();
            if (shape == "TSDB") return wire<CWriter, TSD<Int, B2>>(w, Int{id}).erased();
            if (shape == "TSDD") return wire<CWriter, TSD<Int, TSD<Int, TS<Int>>>>(w, Int{id}).erased();
            if (shape == "TSDS") return wire<CWriter, TSD<Int, TSS<Int>>>(w, Int{id}).erased();
            if (shape == "TSLS") return wire<CWriter, TSL<TSS<Int>, 2>>(w, Int{id}).erased();
            if (shape == "TSDL") return wire<CWriter, TSD<Str, TSL<TS<Int>, 2>>>(w, Int{id}).erased();
            throw std::invalid_argument("collections: unknown shape " + shape);
        }

        template <typename S>
        void attach(Wiring &w, const std::string &what, const Stmt &st, Port<S> p, std::map<long long, WiringPortRef> &ports)
        {
            if (what == "probe") wire<CProbe>(w, p, Int{std::stoll(st.tok.at(1))}, Int{st.geti("until", 20)});
            else if (what == "cons") wire<CCons>(w, p, Int{std::stoll(st.tok.at(1))}, Int{st.geti("every", 1)});
            else if (what == "mirror") ports[std::stoll(st.tok.at(1))] = wire<CMirror>(w, p, Int{std::stoll(st.tok.at(1))}).erased();
            else if (what == "record") wire<stdlib::dense_record_impl>(w, p, Str{st.tok.at(1)});
        }

        template <typename Fn>
        void with_shape(const std::string &shape, Wiring &w, const WiringPortRef &ref, Fn &&fn)
        {
            if (shape == "TS") fn(Port<TS<Int>>{w, ref});
            else if (shape == "TSStr") fn(Port<TS<Str>>{w, ref});
            else if (shape == "SIGNAL") fn(Port<SIGNAL>{w, ref});
            else if (shape == "TSS") fn(Port<TSS<Int>>{w, ref});
            else if (shape == "TSSStr") fn(Port<TSS<Str>>{w, ref});
            else if (shape == "TSD") fn(Port<TSD<Int, TS<Int>>>{w, ref});
            else if (shape == "TSDStr") fn(Port<TSD<Str, TS<Int>>>{w, ref});
            else if (shape == "TSL") fn(Port<TSL<TS<Int>, 3>>{w, ref});
            else if (shape == "TSB") fn(Port<B2>{w, ref});
            else if (shape == "TSBS") fn(Port<BS>{w, ref});
            else if (shape == "TSW") fn(Port<TSW<Int, 3, 2>>{w, ref});
            else if (shape == "TSDB") fn(Port<TSD<Int, B2>>{w, ref});
            else if (shape == "TSDD") fn(Port<TSD<Int, TSD<Int, TS<Int>>>>{w, ref});
            else if (shape == "TSDS") fn(Port<TSD<Int, TSS<Int>>>{w, ref});
            else if (shape == "TSLS") fn(Port<TSL<TSS<Int>, 2>>{w, ref});
            else if (shape == "TSDL") fn(Port<TSD<Str, TSL<TS<Int>, 2>>>{w, ref});
            else throw std::invalid_argument("collections: unknown shape " + shape);
        }

        template <typename S>
        WiringPortRef wire_replay(Wiring &w, const std::string &key) { return wire<stdlib::replay_impl, S>(w, Str{key}).erased(); }

        WiringPortRef make_replay(Wiring &w, const std::string &shape, const std::string &key)
        {
            WiringPortRef out;
            if (shape == "TS") return wire_replay<TS<Int>>(w, key);
            if (shape == "TSStr") return wire_replay<TS<Str>>(w, key);
            if (shape == "SIGNAL") return wire_replay<SIGNAL>(w, key);
            if (shape == "TSS") return wire_replay<TSS<Int>>(w, key);
            if (shape == "TSSStr") return wire_replay<TSS<Str>>(w, key);
            if (shape == "TSD") return wire_replay<TSD<Int, TS<Int>>>(w, key);
            if (shape == "TSDStr") return wire_replay<TSD<Str, TS<Int>>>(w, key);
            if (shape == "TSL") return wire_replay<TSL<TS<Int>, 3>>(w, key);
            if (shape == "TSB") return wire_replay<B2>(w, key);
            if (shape == "TSBS") return wire_replay<BS>(w, key);
            if (shape == "TSW") return wire_replay<TSW<Int, 3, 2>>(w, key);
            if (shape == "TSDB") return wire_replay<TSD<Int, B2>>(w, key);
            if (shape == "TSDD") return wire_replay<TSD<Int, TSD<Int, TS<Int>>>>(w, key);
            if (shape == "TSDS") return wire_replay<TSD<Int, TSS<Int>>>(w, key);
            if (shape == "TSLS") return wire_replay<TSL<TSS<Int>, 2>>(w, key);
            if (shape == "TSDL") return wire_replay<TSD<Str, TSL<TS<Int>, 2>>>(w, key);
            throw std::invalid_argument("collections: unknown shape " + shape);
        }

        struct CRoot
        {
            static constexpr auto name = "hv_croot";
            static void compose(Wiring &w)
            {
                std::map<long long, WiringPortRef> ports;
                std::map<long long, std::string> shapes;
                for (auto &st : g_csc->stmts)
                {
                    const auto &k = st.tok[0];
                    const int run = static_cast<int>(st.geti("run", 0));
                    if (st.has("run") && run != g_run_index) continue;
                    if (k == "writer")
                    {
                        long long id = std::stoll(st.tok.at(1));
                        shapes[id]   = st.get("shape");
                        ports[id]    = make_writer(w, st.get("shape"), id, st.geti("typed", 0) != 0);
                    }
                    else if (k == "replay")
                    {
                        long long id = std::stoll(st.tok.at(1));
                        shapes[id]   = st.get("shape");
                        ports[id]    = make_replay(w, st.get("shape"), st.get("key"));
                    }
                    else if (k == "probe" || k == "cons" || k == "mirror" || k == "record")
                    {
                        long long src = std::stoll(st.tok.at(2));
                        auto it = ports.find(src);
                        if (it == ports.end()) throw std::invalid_argument("collections: unknown producer " + st.tok.at(2));
                        const std::string shape = shapes.at(src);
                        if (k == "mirror") shapes[std::stoll(st.tok.at(1))] = shape;
                        const WiringPortRef ref = it->second;
                        with_shape(shape, w, ref, [&](auto port) { attach(w, k, st, port, ports); });
                    }
                }
            }
        };
    }  // namespace

    int run_collections(const Scenario &sc)
    {
        g_csc = &sc;
        long long start_off = 0, end_off = 30;
        int runs = 1;
        g_wscript.clear();
        for (auto &st : sc.stmts)
        {
            const auto &k = st.tok[0];
            if (k == "window") { start_off = std::stoll(st.tok.at(1)); end_off = std::stoll(st.tok.at(2)); }
            else if (k == "runs") runs = std::stoi(st.tok.at(1));
            else if (k == "wscript") parse_wscript(st);
        }
        clock_fault_config(1, 0, 0, false);
        Observer obs;
        obs.log_lifecycle = false;
        obs.log_node_eval = false;
        GlobalState carried;
        bool have_carried = false;
        for (int r = 0; r < runs; ++r)
        {
            g_run_index = r;
            Line("run").i("r", r).emit();
            GraphBuilder gb;
            try { gb = build_graph<CRoot>(); }
            catch (const std::exception &e)
            {
                Line("wire_error").str("what", e.what()).emit();
                Line("end").str("run", "wire_error").emit();
                return 0;
            }
            if (have_carried) gb.global_state().copy_from(carried.view());
            obs.gid.clear();
            obs.next_gid = 0;
            GraphExecutorBuilder eb;
            eb.graph_builder(std::move(gb)).start_time(at(start_off)).end_time(at(end_off)).add_lifecycle_observer(&obs);
            auto ex = eb.make_executor();
            try
            {
                ex.view().run();
                Line("ran").str("run", "ok").emit();
            }
            catch (const std::exception &e)
            {
                Line("ran").str("run", "threw").str("what", e.what()).emit();
            }
            GlobalStateView gs = ex.view().graph().global_state();
            // recorded buffers, through the tree's own codec
            for (auto &st : sc.stmts)
            {
                if (st.tok[0] == "record" && (!st.has("run") || st.geti("run") == r))
                {
                    const std::string key = st.tok.at(1);
                    std::string v = "null";
                    if (gs.contains(key))
                    {
                        // a dense buffer: one entry per engine cycle since MIN_ST, holes are unset elements
                        auto list = gs.get(key).as_list();
                        v         = "[";
                        for (size_t i = 0; i < list.size(); ++i)
                        {
                            if (i) v += ",";
                            auto d = testing::dense_entry_delta(list, i);
                            v += d.has_value() ? jstr(d->view()) : std::string("null");
                        }
                        v += "]";
                    }
                    Line("buf").i("r", r).str("key", key).raw("v", v).emit();
                }
            }
            carried.view().copy_from(gs);
            have_carried = true;
        }
        Line("end").str("run", "done").emit();
        return 0;
    }
}  // namespace hv
