// mode collections: scripted writers over many time-series shapes, always-awake passive probes, active and lazy
// consumers, capture/apply mirrors, record and replay. Serves C04, C05, C20.
//
//   window <start> <end>
//   writer <id> shape=<S> [typed=1]              erased writer (JSON deltas through apply_delta) or typed writer (authoring mutators)
//   wscript <id> <off>|<op>|<op>...;<off>|...     ops: d=<json delta>  inv  (typed) add=x rem=x clear set=k:v del=k seti=i:v setf=a:v push=v
//   probe <id> <writer id> until=<off>            passive + Unchecked input, wakes itself every cycle, logs the full view
//   cons <id> <writer id> [every=<n>]             active Unchecked consumer; with every=n it reads its input only on each n-th tick
//   mirror <id> <writer id>                       out = apply_delta(capture_delta(in)); cons/probe may attach to a mirror id
//   towin <id> <TS writer id> kind=tick|dur period=<n> min=<n> [reset=<SIGNAL writer id>]
//                                                  stdlib::to_window over a scripted TS<Int> (tick-count or duration window, resettable);
//                                                  probe/cons attach to <id> (shape WIN: a runtime window schema)
//   record <key> <producer id>                    stdlib dense record into GlobalState[key]
//   replay <id> shape=<S> key=<key>               stdlib replay source
//   srecord <key> <producer id> rid=<recordable id>   stdlib sparse (absolute-time) record into GlobalState[":memory:<rid>.<key>"]
//   sreplay <id> shape=<S> key=<key> rid=<recordable id>   stdlib replay of the sparse recording (entries at their recorded times)
//   window2 <start> <end>                          run window of the second run (default: the first run's)
//   runs 2                                        second run: fresh executor whose builder GlobalState is seeded with run 1's
#include "collvocab.h"

#include <hgraph/lib/std/operators/impl/record_replay_memory_impl.h>
#include <hgraph/lib/testing/record_replay_buffer.h>
#include <hgraph/types/time_series/ts_delta.h>
#include <hgraph/types/value/json_codec.h>
#include <hgraph/lib/std/std_operators.h>

namespace hv
{
    using namespace hgraph;

    using namespace cv;

    // one table for every place that dispatches on the shape name (erased writers, consumers, replay sources)
#define HV_SHAPES(X)                                          \
    X("TS", TS<Int>)                                          \
    X("TSStr", TS<Str>)                                       \
    X("SIGNAL", SIGNAL)                                       \
    X("TSS", TSS<Int>)                                        \
    X("TSSStr", TSS<Str>)                                     \
    X("TSD", TSD<Int, TS<Int>>)                               \
    X("TSDStr", TSD<Str, TS<Int>>)                            \
    X("TSL", TSL<TS<Int>, 3>)                                 \
    X("TSB", B2)                                              \
    X("TSBS", BS)                                             \
    X("TSW", TSW<Int, 3, 2>)                                  \
    X("TSDB", TSD<Int, B2>)                                   \
    X("TSDD", TSD<Int, TSD<Int, TS<Int>>>)                    \
    X("TSDS", TSD<Int, TSS<Int>>)                             \
    X("TSLS", TSL<TSS<Int>, 2>)                               \
    X("TSDL", TSD<Str, TSL<TS<Int>, 2>>)                      \
    X("TSBL", BL)                                             \
    X("TSBB", BB)                                             \
    X("TSDW", TSD<Int, TSW<Int, 3, 2>>)                       \
    X("TSDBS", TSD<Int, BS>)                                  \
    X("TSLB", TSL<B2, 2>)                                     \
    X("TSBW", BW)

    namespace
    {
        const Scenario *g_csc = nullptr;
        int g_run_index = 0;

        template <typename S>
        Port<void> wire_writer_erased(Wiring &w, long long id) { return Port<void>{wire<CWriter, S>(w, Int{id}).erased()}; }

        WiringPortRef make_writer(Wiring &w, const std::string &shape, long long id, bool typed)
        {
            if (typed)
            {
                if (shape == "TS") return wire<TWScalar>(w, Int{id}).erased();
                if (shape == "TSS") return wire<TWSet>(w, Int{id}).erased();
                if (shape == "TSD") return wire<TWDict>(w, Int{id}).erased();
                if (shape == "TSL") return wire<TWList>(w, Int{id}).erased();
                if (shape == "TSB") return wire<TWBundle>(w, Int{id}).erased();
                if (shape == "TSW") return wire<TWWin>(w, Int{id}).erased();
                throw std::invalid_argument("collections: no typed writer for shape " + shape);
            }
#define HV_X(NAME, ...) if (shape == NAME) return wire<CWriter, __VA_ARGS__>(w, Int{id}).erased();
            HV_SHAPES(HV_X)
#undef HV_X
            throw std::invalid_argument("collections: unknown shape " + shape);
        }

        template <typename S>
        void attach(Wiring &w, const std::string &what, const Stmt &st, Port<S> p, std::map<long long, WiringPortRef> &ports)
        {
            if (what == "probe") wire<CProbe>(w, p, Int{std::stoll(st.tok.at(1))}, Int{st.geti("until", 20)});
            else if (what == "cons") wire<CCons>(w, p, Int{std::stoll(st.tok.at(1))}, Int{st.geti("every", 1)});
            else if (what == "mirror") ports[std::stoll(st.tok.at(1))] = wire<CMirror>(w, p, Int{std::stoll(st.tok.at(1))}).erased();
            else if (what == "record") wire<stdlib::dense_record_impl>(w, p, Str{st.tok.at(1)});
            else if (what == "srecord") wire<stdlib::sparse_record_impl>(w, p, Str{st.tok.at(1)}, arg<"recordable_id">(Str{st.get("rid", "book")}));
        }

        template <typename Fn>
        void with_shape(const std::string &shape, Wiring &w, const WiringPortRef &ref, Fn &&fn)
        {
            if (shape == "WIN") { fn(Port<void>{w, ref}); return; }     // runtime window schema (stdlib::to_window)
#define HV_X(NAME, ...) if (shape == NAME) { fn(Port<__VA_ARGS__>{w, ref}); return; }
            HV_SHAPES(HV_X)
#undef HV_X
            throw std::invalid_argument("collections: unknown shape " + shape);
        }

        template <typename S>
        WiringPortRef wire_replay(Wiring &w, const std::string &key) { return wire<stdlib::replay_impl, S>(w, Str{key}).erased(); }

        template <typename S>
        WiringPortRef wire_sreplay(Wiring &w, const std::string &key, const std::string &rid)
        {
            return wire<stdlib::replay_impl, S>(w, Str{key}, arg<"recordable_id">(Str{rid})).erased();
        }
        WiringPortRef make_sreplay(Wiring &w, const std::string &shape, const std::string &key, const std::string &rid)
        {
#define HV_X(NAME, ...) if (shape == NAME) return wire_sreplay<__VA_ARGS__>(w, key, rid);
            HV_SHAPES(HV_X)
#undef HV_X
            throw std::invalid_argument("collections: unknown shape " + shape);
        }

        WiringPortRef make_replay(Wiring &w, const std::string &shape, const std::string &key)
        {
            WiringPortRef out;
#define HV_X(NAME, ...) if (shape == NAME) return wire_replay<__VA_ARGS__>(w, key);
            HV_SHAPES(HV_X)
#undef HV_X
            throw std::invalid_argument("collections: unknown shape " + shape);
        }

        struct CRoot
        {
            static constexpr auto name = "hv_croot";
            static void compose(Wiring &w)
            {
                std::map<long long, WiringPortRef> ports;
                std::map<long long, std::string> shapes;
                for (auto &st : g_csc->stmts)
                {
                    const auto &k = st.tok[0];
                    const int run = static_cast<int>(st.geti("run", 0));
                    if (st.has("run") && run != g_run_index) continue;
                    if (k == "writer")
                    {
                        long long id = std::stoll(st.tok.at(1));
                        shapes[id]   = st.get("shape");
                        ports[id]    = make_writer(w, st.get("shape"), id, st.geti("typed", 0) != 0);
                    }
                    else if (k == "replay")
                    {
                        long long id = std::stoll(st.tok.at(1));
                        shapes[id]   = st.get("shape");
                        ports[id]    = make_replay(w, st.get("shape"), st.get("key"));
                    }
                    else if (k == "sreplay")
                    {
                        long long id = std::stoll(st.tok.at(1));
                        shapes[id]   = st.get("shape");
                        ports[id]    = make_sreplay(w, st.get("shape"), st.get("key"), st.get("rid", "book"));
                    }
                    else if (k == "towin")
                    {
                        long long id  = std::stoll(st.tok.at(1));
                        long long src = std::stoll(st.tok.at(2));
                        Port<TS<Int>> ts{w, ports.at(src)};
                        const bool dur = st.get("kind", "tick") == "dur";
                        const long long period = st.geti("period", 3), mn = st.geti("min", 1);
                        WiringPortRef out;
                        if (st.has("reset"))
                        {
                            Port<SIGNAL> reset{w, ports.at(st.geti("reset"))};
                            out = dur ? wire<stdlib::to_window>(w, ts, MIN_TD * static_cast<int64_t>(period), MIN_TD * static_cast<int64_t>(mn), reset).erased()
                                      : wire<stdlib::to_window>(w, ts, Int{period}, Int{mn}, reset).erased();
                        }
                        else
                            out = dur ? wire<stdlib::to_window>(w, ts, MIN_TD * static_cast<int64_t>(period), MIN_TD * static_cast<int64_t>(mn)).erased()
                                      : wire<stdlib::to_window>(w, ts, Int{period}, Int{mn}).erased();
                        ports[id]  = out;
                        shapes[id] = "WIN";
                    }
                    else if (k == "probe" || k == "cons" || k == "mirror" || k == "record" || k == "srecord")
                    {
                        long long src = std::stoll(st.tok.at(2));
                        auto it = ports.find(src);
                        if (it == ports.end()) throw std::invalid_argument("collections: unknown producer " + st.tok.at(2));
                        const std::string shape = shapes.at(src);
                        if (k == "mirror") shapes[std::stoll(st.tok.at(1))] = shape;
                        const WiringPortRef ref = it->second;
                        with_shape(shape, w, ref, [&](auto port) { attach(w, k, st, port, ports); });
                    }
                }
            }
        };
    }  // namespace

    int run_collections(const Scenario &sc)
    {
        g_csc = &sc;
        long long start_off = 0, end_off = 30, start2 = -1, end2 = -1;
        int runs = 1;
        g_wscript.clear();
        for (auto &st : sc.stmts)
        {
            const auto &k = st.tok[0];
            if (k == "window") { start_off = std::stoll(st.tok.at(1)); end_off = std::stoll(st.tok.at(2)); }
            else if (k == "runs") runs = std::stoi(st.tok.at(1));
            else if (k == "window2") { start2 = std::stoll(st.tok.at(1)); end2 = std::stoll(st.tok.at(2)); }
            else if (k == "wscript") parse_wscript(st);
        }
        clock_fault_config(1, 0, 0, false);
        Observer obs;
        obs.log_lifecycle = false;
        obs.log_node_eval = false;
        GlobalState carried;
        bool have_carried = false;
        for (int r = 0; r < runs; ++r)
        {
            g_run_index = r;
            Line("run").i("r", r).emit();
            GraphBuilder gb;
            try { gb = build_graph<CRoot>(); }
            catch (const std::exception &e)
            {
                Line("wire_error").str("what", e.what()).emit();
                Line("end").str("run", "wire_error").emit();
                return 0;
            }
            if (have_carried) gb.global_state().copy_from(carried.view());
            obs.gid.clear();
            obs.next_gid = 0;
            GraphExecutorBuilder eb;
            const bool second = r > 0 && start2 >= 0;
            eb.graph_builder(std::move(gb)).start_time(at(second ? start2 : start_off)).end_time(at(second ? end2 : end_off)).add_lifecycle_observer(&obs);
            auto ex = eb.make_executor();
            try
            {
                ex.view().run();
                Line("ran").str("run", "ok").emit();
            }
            catch (const std::exception &e)
            {
                Line("ran").str("run", "threw").str("what", e.what()).emit();
            }
            GlobalStateView gs = ex.view().graph().global_state();
            // recorded buffers, through the tree's own codec
            for (auto &st : sc.stmts)
            {
                if (st.tok[0] == "record" && (!st.has("run") || st.geti("run") == r))
                {
                    const std::string key = st.tok.at(1);
                    std::string v = "null";
                    if (gs.contains(key))
                    {
                        // a dense buffer: one entry per engine cycle since MIN_ST, holes are unset elements
                        auto list = gs.get(key).as_list();
                        v         = "[";
                        for (size_t i = 0; i < list.size(); ++i)
                        {
                            if (i) v += ",";
                            auto d = testing::dense_entry_delta(list, i);
                            v += d.has_value() ? jstr(d->view()) : std::string("null");
                        }
                        v += "]";
                    }
                    Line("buf").i("r", r).str("key", key).raw("v", v).emit();
                }
            }
            // sparse recordings: (time, delta) entries under ":memory:<recordable id>.<key>"
            for (auto &st : sc.stmts)
            {
                if (st.tok[0] == "srecord" && (!st.has("run") || st.geti("run") == r))
                {
                    const std::string key = ":memory:" + st.get("rid", "book") + "." + st.tok.at(1);
                    std::string v = "null";
                    if (gs.contains(key))
                    {
                        auto list = gs.get(key).as_list();
                        v         = "[";
                        for (size_t i = 0; i < list.size(); ++i)
                        {
                            if (i) v += ",";
                            auto entry = list.at(i).as_indexed_view();
                            v += "[" + tstr(entry.at(0).checked_as<DateTime>()) + "," + jstr(entry.at(1)) + "]";
                        }
                        v += "]";
                    }
                    Line("sbuf").i("r", r).str("key", st.get("rid", "book") + "." + st.tok.at(1)).raw("v", v).emit();
                }
            }
            carried.view().copy_from(gs);
            have_carried = true;
        }
        Line("end").str("run", "done").emit();
        return 0;
    }
}  // namespace hv
