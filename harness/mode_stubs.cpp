#include "common.h"
namespace hv {
    int run_higher_order(const Scenario &) { throw std::logic_error("higher_order mode not built"); }
}
