// Vocabulary of static nodes and sub-graphs for mode dataflow. All value ports are TS<Int>.
// Every node carries a Scalar "id": it names the node in the log and in the fault plan. id 0 = anonymous
// (used where interning must be in play, C06).
#pragma once
#include <hgraph/types/lift.h>
#include "common.h"

#include <hgraph/lib/std/operators/control.h>
#include <hgraph/types/value/json_codec.h>

namespace hv
{
    using namespace hgraph;

    // ------------------------------------------------------------ scenario tables
    void parse_timer_script(long long id, const std::string &text);
    void reset_vocab_counters();
    void dump_global_state(GlobalStateView gs);

    inline constexpr long long MODP = 1000003;
    inline long long norm(long long v) { v %= MODP; return v < 0 ? v + MODP : v; }

    inline void u_start(long long id) { if (id) Line("u").str("e", "start").i("id", id).emit(); ctx().faults.maybe_throw(id, PH_START); }
    inline void u_stop(long long id) { if (id) Line("u").str("e", "stop").i("id", id).emit(); ctx().faults.maybe_throw(id, PH_STOP); }

    struct InLog
    {
        std::string s{"["};
        template <typename I> void add(const I &in)
        {
            if (s.size() > 1) s += ",";
            const bool v = in.valid();
            s += "[";
            s += v ? "1," : "0,";
            s += in.modified() ? "1," : "0,";
            s += v ? std::to_string(static_cast<long long>(in.value())) : std::string("null");
            s += "]";
        }
        std::string done() { return s + "]"; }
    };

    // log the evaluation before doing anything that can throw
    inline void u_eval(long long id, DateTime now, const std::string &ins)
    {
        Line("ev").i("id", id).i("t", off(now)).raw("in", ins).emit();
    }
    inline void u_out(long long id, DateTime now, long long v) { Line("out").i("id", id).i("t", off(now)).i("v", v).emit(); }

    // ------------------------------------------------------------ sources
    struct Source
    {
        static constexpr auto name = "hv_source";
        static void start(Scalar<"id", Int> id, NodeScheduler s)
        {
            u_start(id.value());
            auto &sc = ctx().src_script[id.value()];
            if (!sc.empty())
            {
                Line("req").i("id", id.value()).i("t", off(s.now())).i("when", sc.begin()->first).b("in_start", true).emit();
                s.schedule(at(sc.begin()->first));
            }
        }
        static void stop(Scalar<"id", Int> id) { u_stop(id.value()); }
        static void eval(Scalar<"id", Int> id, NodeScheduler s, DateTime now, Out<TS<Int>> out)
        {
            u_eval(id.value(), now, "[]");
            ctx().faults.maybe_throw(id.value(), PH_EVAL);
            auto &sc = ctx().src_script[id.value()];
            auto it  = sc.find(off(now));
            if (it == sc.end()) return;
            out.set(Int{it->second});
            u_out(id.value(), now, it->second);
            ++it;
            if (it != sc.end())
            {
                Line("req").i("id", id.value()).i("t", off(now)).i("when", it->first).b("in_start", false).emit();
                s.schedule(at(it->first));
            }
        }
    };

    struct Ticker
    {
        static constexpr auto name              = "hv_ticker";
        static constexpr bool schedule_on_start = true;
        static void start(Scalar<"id", Int> id, State<Int> n) { n.set(Int{0}); u_start(id.value()); }
        static void stop(Scalar<"id", Int> id) { u_stop(id.value()); }
        static void eval(Scalar<"count", Int> count, Scalar<"period", Int> period, Scalar<"id", Int> id, NodeScheduler s, DateTime now,
                         State<Int> n, Out<TS<Int>> out)
        {
            u_eval(id.value(), now, "[]");
            ctx().faults.maybe_throw(id.value(), PH_EVAL);
            const long long v = n.get() * 100 + 7;
            out.set(Int{v});
            u_out(id.value(), now, v);
            n.set(n.get() + 1);
            if (n.get() < count.value())
            {
                Line("req").i("id", id.value()).i("t", off(now)).i("when", off(now) + period.value()).b("in_start", false).emit();
                s.schedule(MIN_TD * period.value());
            }
        }
    };

    // ------------------------------------------------------------ compute nodes
    inline long long mix_w(size_t i) { static const long long w[] = {3, 5, 7}; return w[i]; }
    inline long long mix_m(size_t i) { static const long long m[] = {1000, 20000, 400000}; return m[i]; }

    struct Mixer
    {
        long long acc{0};
        long long sumv{0};
        long long first_mod{-1};
        size_t i{0};
        template <typename I> void add(const I &in)
        {
            const bool v = in.valid();
            const long long val = v ? static_cast<long long>(in.value()) : -1;
            acc += mix_w(i) * val;
            if (in.modified()) { acc += mix_m(i); if (first_mod < 0 && v) first_mod = val; }
            if (v) sumv += val;
            ++i;
        }
        // returns true when the node writes
        bool result(long long op, long long &out) const
        {
            switch (op)
            {
                case 0: out = norm(acc); return true;                                        // mix
                case 1: out = norm(acc); return (sumv % 2 + 2) % 2 == 0;                     // gate: only when the sum of valid inputs is even
                case 2: out = first_mod >= 0 ? first_mod : norm(acc); return true;           // sel: value of the first modified valid input
                default: out = norm(acc); return true;
            }
        }
    };

    template <typename Out, typename... In>
    void compute_body(long long id, long long op, DateTime now, Out &out, const In &...in)
    {
        InLog il;
        (il.add(in), ...);
        u_eval(id, now, il.done());
        ctx().faults.maybe_throw(id, PH_EVAL);
        Mixer m;
        (m.add(in), ...);
        long long v;
        if (m.result(op, v)) { out.set(Int{v}); u_out(id, now, v); }
    }

    // a scalar function lifted into a compute node with lift<F>(): its evaluator is the specialised lifted one, not the
    // standard static-node evaluator. A lifted function sees values only (no id, no clock, no flags): the node id comes
    // from a per-program slot table, the time from the observer.
    inline constexpr const char *lift_names[4] = {"hv_lift2_0", "hv_lift2_1", "hv_lift2_2", "hv_lift2_3"};
    template <int K>
    struct LiftQ
    {
        static constexpr const char                     *name = lift_names[K];
        static constexpr std::array<std::string_view, 2> parameter_names{"a", "b"};
        [[nodiscard]] static Int apply(Int a, Int b)
        {
            const long long id = ctx().lift_id[K];
            const long long t  = ctx().cycle_off;
            Line("ev").i("id", id).i("t", t).raw("in", "[[1,null," + std::to_string(static_cast<long long>(a)) + "],[1,null," + std::to_string(static_cast<long long>(b)) + "]]").emit();
            ctx().faults.maybe_throw(id, PH_EVAL);
            const long long v = norm(static_cast<long long>(a) * 3 + static_cast<long long>(b) * 5 + 11);
            Line("out").i("id", id).i("t", t).i("v", v).emit();
            return Int{v};
        }
    };

    template <InputValidity V0 = InputValidity::Valid>
    struct C1
    {
        static constexpr size_t arity = 1;
        static constexpr auto name    = "hv_c1";
        static void start(Scalar<"id", Int> id) { u_start(id.value()); }
        static void stop(Scalar<"id", Int> id) { u_stop(id.value()); }
        static void eval(In<"a", TS<Int>, V0> a, Scalar<"id", Int> id, Scalar<"op", Int> op, DateTime now, Out<TS<Int>> out)
        {
            compute_body(id.value(), op.value(), now, out, a);
        }
    };
    template <InputValidity V0 = InputValidity::Valid, InputValidity V1 = InputValidity::Valid>
    struct C2
    {
        static constexpr size_t arity = 2;
        static constexpr auto name    = "hv_c2";
        static void start(Scalar<"id", Int> id) { u_start(id.value()); }
        static void stop(Scalar<"id", Int> id) { u_stop(id.value()); }
        static void eval(In<"a", TS<Int>, V0> a, In<"b", TS<Int>, V1> b, Scalar<"id", Int> id, Scalar<"op", Int> op, DateTime now,
                         Out<TS<Int>> out)
        {
            compute_body(id.value(), op.value(), now, out, a, b);
        }
    };
    template <InputValidity V0 = InputValidity::Valid, InputValidity V1 = InputValidity::Valid, InputValidity V2 = InputValidity::Valid>
    struct C3
    {
        static constexpr size_t arity = 3;
        static constexpr auto name    = "hv_c3";
        static void start(Scalar<"id", Int> id) { u_start(id.value()); }
        static void stop(Scalar<"id", Int> id) { u_stop(id.value()); }
        static void eval(In<"a", TS<Int>, V0> a, In<"b", TS<Int>, V1> b, In<"c", TS<Int>, V2> c, Scalar<"id", Int> id, Scalar<"op", Int> op,
                         DateTime now, Out<TS<Int>> out)
        {
            compute_body(id.value(), op.value(), now, out, a, b, c);
        }
    };

    // compile-time passive + unchecked second input (the documented "sample" shape)
    struct Sample
    {
        static constexpr auto name = "hv_sample";
        static void start(Scalar<"id", Int> id) { u_start(id.value()); }
        static void stop(Scalar<"id", Int> id) { u_stop(id.value()); }
        static void eval(In<"trigger", TS<Int>> trigger, In<"value", TS<Int>, InputActivity::Passive, InputValidity::Unchecked> value,
                         Scalar<"id", Int> id, DateTime now, Out<TS<Int>> out)
        {
            compute_body(id.value(), 0, now, out, trigger, value);
        }
    };

    // compile-time passive input *between* two active ones (the wiring-time passive(port) mark may be applied to it
    // redundantly, and to either active neighbour)
    struct SampleMid
    {
        static constexpr auto name = "hv_samplemid";
        static void start(Scalar<"id", Int> id) { u_start(id.value()); }
        static void stop(Scalar<"id", Int> id) { u_stop(id.value()); }
        static void eval(In<"a", TS<Int>> a, In<"held", TS<Int>, InputActivity::Passive> held, In<"c", TS<Int>, InputValidity::Unchecked> c,
                         Scalar<"id", Int> id, DateTime now, Out<TS<Int>> out)
        {
            compute_body(id.value(), 0, now, out, a, held, c);
        }
    };

    // generic over its output type: wire<Conv, TS<Int>> and wire<Conv, TS<Float>> are two resolutions of one definition
    // that differ only in the resolved output type (same inputs, same scalars)
    struct Conv
    {
        static constexpr auto name = "hv_conv";
        static void start(Scalar<"id", Int> id) { u_start(id.value()); }
        static void stop(Scalar<"id", Int> id) { u_stop(id.value()); }
        static void eval(In<"a", TS<Int>> a, Scalar<"id", Int> id, DateTime now, Out<TsVar<"O">> out)
        {
            InLog il;
            il.add(a);
            u_eval(id.value(), now, il.done());
            ctx().faults.maybe_throw(id.value(), PH_EVAL);
            const TSOutputView &erased = out;
            if (erased.schema() == schema_descriptor<TS<Float>>::ts_meta())
            {
                Value v{Float(static_cast<double>(a.value()) + 0.5)};
                out.apply(v.view());
                u_out(id.value(), now, norm(2 * a.value() + 1));     // what FloatToInt below makes of it
            }
            else
            {
                const long long r = norm(a.value() + 1);
                Value v{Int{r}};
                out.apply(v.view());
                u_out(id.value(), now, r);
            }
        }
    };
    struct FloatToInt
    {
        static constexpr auto name = "hv_float_to_int";
        static void eval(In<"a", TS<Float>> a, Out<TS<Int>> out) { out.set(Int{norm(static_cast<long long>(a.value() * 2))}); }
    };

    struct Accum
    {
        static constexpr auto name = "hv_accum";
        static void start(Scalar<"id", Int> id, State<Int> s) { s.set(Int{0}); u_start(id.value()); }
        static void stop(Scalar<"id", Int> id, State<Int> s) { if (id.value()) Line("ustate").i("id", id.value()).i("v", s.get()).emit(); u_stop(id.value()); }
        static void eval(In<"a", TS<Int>> a, Scalar<"id", Int> id, DateTime now, State<Int> s, Out<TS<Int>> out)
        {
            InLog il;
            il.add(a);
            u_eval(id.value(), now, il.done());
            ctx().faults.maybe_throw(id.value(), PH_EVAL);
            const long long v = norm(s.get() + a.value());
            s.set(Int{v});
            out.set(Int{v});
            u_out(id.value(), now, v);
        }
    };

    struct ToBool
    {
        static constexpr auto name = "hv_tobool";
        static void eval(In<"a", TS<Int>> a, Scalar<"id", Int> id, DateTime now, Out<TS<Bool>> out)
        {
            InLog il;
            il.add(a);
            u_eval(id.value(), now, il.done());
            ctx().faults.maybe_throw(id.value(), PH_EVAL);
            out.set(Bool{(a.value() % 2 + 2) % 2 == 1});
        }
    };

    // ------------------------------------------------------------ structural consumers
    template <size_t N, InputValidity V>
    struct SumL
    {
        static constexpr auto name = "hv_suml";
        static void start(Scalar<"id", Int> id) { u_start(id.value()); }
        static void stop(Scalar<"id", Int> id) { u_stop(id.value()); }
        static void eval(In<"l", TSL<TS<Int>, N>, V> l, Scalar<"id", Int> id, DateTime now, Out<TS<Int>> out)
        {
            InLog il;
            long long acc = 0;
            for (size_t i = 0; i < N; ++i)
            {
                auto c = l[i];
                il.add(c);
                acc += mix_w(i) * (c.valid() ? static_cast<long long>(c.value()) : -1) + (c.modified() ? mix_m(i) : 0);
            }
            u_eval(id.value(), now, il.done());
            ctx().faults.maybe_throw(id.value(), PH_EVAL);
            out.set(Int{norm(acc)});
            u_out(id.value(), now, norm(acc));
        }
    };
    using SumL2  = SumL<2, InputValidity::Valid>;
    using SumL2A = SumL<2, InputValidity::AllValid>;
    using SumL3  = SumL<3, InputValidity::Valid>;
    using SumL3A = SumL<3, InputValidity::AllValid>;

    using PairB = TSB<"HvPair", Field<"a", TS<Int>>, Field<"b", TS<Int>>>;
    template <InputValidity V>
    struct SumBT
    {
        static constexpr auto name = "hv_sumb";
        static void start(Scalar<"id", Int> id) { u_start(id.value()); }
        static void stop(Scalar<"id", Int> id) { u_stop(id.value()); }
        static void eval(In<"p", PairB, V> p, Scalar<"id", Int> id, DateTime now, Out<TS<Int>> out)
        {
            InLog il;
            auto a = p.template field<"a">();
            auto b = p.template field<"b">();
            il.add(a);
            il.add(b);
            u_eval(id.value(), now, il.done());
            ctx().faults.maybe_throw(id.value(), PH_EVAL);
            Mixer m;
            m.add(a);
            m.add(b);
            long long v;
            m.result(0, v);
            out.set(Int{v});
            u_out(id.value(), now, v);
        }
    };
    using SumB  = SumBT<InputValidity::Valid>;
    using SumBA = SumBT<InputValidity::AllValid>;

    // ------------------------------------------------------------ sinks
    struct Rec
    {
        static constexpr auto name = "hv_rec";
        static void start(Scalar<"id", Int> id) { u_start(id.value()); }
        static void stop(Scalar<"id", Int> id) { u_stop(id.value()); }
        static void eval(In<"a", TS<Int>> a, Scalar<"id", Int> id, DateTime now)
        {
            Line("rec").i("id", id.value()).i("t", off(now)).i("v", a.value()).b("m", a.modified()).emit();
            ctx().faults.maybe_throw(id.value(), PH_EVAL);
        }
    };
    struct RecU
    {
        static constexpr auto name = "hv_recu";
        static void eval(In<"a", TS<Int>, InputValidity::Unchecked> a, Scalar<"id", Int> id, DateTime now)
        {
            Line l("rec");
            l.i("id", id.value()).i("t", off(now));
            if (a.valid()) l.i("v", a.value()); else l.raw("v", "null");
            l.b("m", a.modified()).emit();
        }
    };
    struct RecErr
    {
        static constexpr auto name = "hv_recerr";
        static void eval(In<"e", TS<NodeError>> e, Scalar<"id", Int> id, DateTime now)
        {
            Line("errtick").i("id", id.value()).i("t", off(now)).b("m", e.modified())
                .str("msg", e.base().value().as_bundle().at("error_msg").template checked_as<Str>())
                .str("bt", e.base().value().as_bundle().at("activation_back_trace").template checked_as<Str>()).emit();
        }
    };
    struct StopAt
    {
        static constexpr auto name = "hv_stopat";
        static void start(Scalar<"at", Int> when, NodeScheduler s) { s.schedule(at(when.value())); }
        static void eval(Scalar<"at", Int> when, EngineControlView engine, DateTime now)
        {
            Line("stopreq").i("t", off(now)).emit();
            engine.request_stop();
        }
    };
    struct GsWrite
    {
        static constexpr auto name = "hv_gswrite";
        static void eval(In<"a", TS<Int>> a, Scalar<"id", Int> id, GlobalStateView gs)
        {
            gs.set("k" + std::to_string(id.value()), Value{Int{a.value()}});
        }
    };
    struct GsRead
    {   // emits GlobalState["k<id>"] (or -1) whenever a ticks
        static constexpr auto name = "hv_gsread";
        static void eval(In<"a", TS<Int>> a, Scalar<"id", Int> id, GlobalStateView gs, DateTime now, Out<TS<Int>> out)
        {
            const std::string k = "k" + std::to_string(id.value());
            const long long v   = gs.contains(k) ? static_cast<long long>(gs.get_as<Int>(k)) : -1;
            out.set(Int{v});
        }
    };

    // ------------------------------------------------------------ scheduler-scripted nodes (C18, C02)
    void timer_run_ops(long long id, long long k, NodeScheduler &s, bool in_start);

    struct Timer0
    {
        static constexpr auto name = "hv_timer0";
        static void start(Scalar<"id", Int> id, NodeScheduler s, State<Int> n) { n.set(Int{0}); u_start(id.value()); timer_run_ops(id.value(), 0, s, true); }
        static void stop(Scalar<"id", Int> id) { u_stop(id.value()); }
        static void eval(Scalar<"id", Int> id, NodeScheduler s, DateTime now, State<Int> n, Out<TS<Int>> out)
        {
            u_eval(id.value(), now, "[]");
            ctx().faults.maybe_throw(id.value(), PH_EVAL);
            n.set(n.get() + 1);   // evaluation count is per node instance (duplicates with equal ids must not share it)
            const long long k = n.get();
            timer_run_ops(id.value(), k, s, false);
            out.set(Int{k});
            u_out(id.value(), now, k);
        }
    };
    struct Timer1
    {
        static constexpr auto name = "hv_timer1";
        static void start(Scalar<"id", Int> id, NodeScheduler s, State<Int> n) { n.set(Int{0}); u_start(id.value()); timer_run_ops(id.value(), 0, s, true); }
        static void stop(Scalar<"id", Int> id) { u_stop(id.value()); }
        static void eval(In<"x", TS<Int>, InputValidity::Unchecked> x, Scalar<"id", Int> id, NodeScheduler s, DateTime now, State<Int> n, Out<TS<Int>> out)
        {
            InLog il;
            il.add(x);
            u_eval(id.value(), now, il.done());
            ctx().faults.maybe_throw(id.value(), PH_EVAL);
            n.set(n.get() + 1);
            const long long k = n.get();
            timer_run_ops(id.value(), k, s, false);
            const long long v = norm(k * 1000 + (x.valid() ? static_cast<long long>(x.value()) : -1));
            out.set(Int{v});
            u_out(id.value(), now, v);
        }
    };

    struct Timer1P
    {   // as Timer1 but the only input is compile-time Passive: the node has no active input at all and is driven by its own schedule
        static constexpr auto name = "hv_timer1p";
        static void start(Scalar<"id", Int> id, NodeScheduler s, State<Int> n) { n.set(Int{0}); u_start(id.value()); timer_run_ops(id.value(), 0, s, true); }
        static void stop(Scalar<"id", Int> id) { u_stop(id.value()); }
        static void eval(In<"x", TS<Int>, InputActivity::Passive, InputValidity::Unchecked> x, Scalar<"id", Int> id, NodeScheduler s, DateTime now, State<Int> n, Out<TS<Int>> out)
        {
            InLog il;
            il.add(x);
            u_eval(id.value(), now, il.done());
            ctx().faults.maybe_throw(id.value(), PH_EVAL);
            n.set(n.get() + 1);
            const long long k = n.get();
            timer_run_ops(id.value(), k, s, false);
            const long long v = norm(k * 1000 + (x.valid() ? static_cast<long long>(x.value()) : -1));
            out.set(Int{v});
            u_out(id.value(), now, v);
        }
    };

    struct Timer1V
    {   // as Timer1 but the input is required valid: never sampled while x holds no value
        static constexpr auto name = "hv_timer1v";
        static void start(Scalar<"id", Int> id, NodeScheduler s, State<Int> n) { n.set(Int{0}); u_start(id.value()); timer_run_ops(id.value(), 0, s, true); }
        static void stop(Scalar<"id", Int> id) { u_stop(id.value()); }
        static void eval(In<"x", TS<Int>> x, Scalar<"id", Int> id, NodeScheduler s, DateTime now, State<Int> n, Out<TS<Int>> out)
        {
            InLog il;
            il.add(x);
            u_eval(id.value(), now, il.done());
            ctx().faults.maybe_throw(id.value(), PH_EVAL);
            n.set(n.get() + 1);
            const long long k = n.get();
            timer_run_ops(id.value(), k, s, false);
            const long long v = norm(k * 1000 + static_cast<long long>(x.value()));
            out.set(Int{v});
            u_out(id.value(), now, v);
        }
    };

    // ------------------------------------------------------------ try/except helpers
    using TryResult = UnNamedTSB<Field<"exception", TS<NodeError>>, Field<"out", TS<Int>>>;
    struct TryExc
    {
        static constexpr auto name = "hv_tryexc";
        static void eval(In<"r", TryResult, InputValidity::Unchecked> r, Scalar<"id", Int> id, DateTime now, Out<TS<Int>> out)
        {
            auto e = r.template field<"exception">();
            if (e.modified())
                Line("errtick").i("id", id.value()).i("t", off(now)).b("m", true)
                    .str("msg", e.base().value().as_bundle().at("error_msg").template checked_as<Str>()).emit();
        }
    };
    struct TryOut
    {
        static constexpr auto name = "hv_tryout";
        static void eval(In<"r", TryResult, InputValidity::Unchecked> r, Scalar<"id", Int> id, DateTime now, Out<TS<Int>> out)
        {
            auto o = r.template field<"out">();
            if (o.modified()) out.set(o.value());
        }
    };

    // ------------------------------------------------------------ sub-graph library (C09, C14, C15)
    // Signature of every member: (x, p, q, id) -> TS<Int>. Internal node ids are derived from id.
    using SP = Port<TS<Int>>;
    struct SgArith
    {   // stateless arithmetic
        static constexpr auto name = "hv_sg_arith";
        static SP compose(Wiring &w, SP x, Scalar<"p", Int> p, Scalar<"q", Int> q, Scalar<"id", Int> id)
        {
            auto a = wire<C1<>>(w, x, Int{id.value() * 10 + 1}, Int{0});
            return wire<C2<>>(w, a, x, Int{id.value() * 10 + 2}, Int{p.value() % 3});
        }
    };
    struct SgAccum
    {   // internal stateful node
        static constexpr auto name = "hv_sg_accum";
        static SP compose(Wiring &w, SP x, Scalar<"p", Int> p, Scalar<"q", Int> q, Scalar<"id", Int> id)
        {
            auto a = wire<Accum>(w, x, Int{id.value() * 10 + 1});
            return wire<C1<>>(w, a, Int{id.value() * 10 + 2}, Int{0});
        }
    };
    struct SgSrc
    {   // internal scripted source (script table entry id*10+1) mixed with x (x not required valid)
        static constexpr auto name = "hv_sg_src";
        static SP compose(Wiring &w, SP x, Scalar<"p", Int> p, Scalar<"q", Int> q, Scalar<"id", Int> id)
        {
            auto s = wire<Source>(w, Int{id.value() * 10 + 1});
            return wire<C2<InputValidity::Unchecked, InputValidity::Valid>>(w, x, s, Int{id.value() * 10 + 2}, Int{0});
        }
    };
    struct SgTimer
    {   // internal self-scheduling ticker (count p, period q) mixed with x
        static constexpr auto name = "hv_sg_timer";
        static SP compose(Wiring &w, SP x, Scalar<"p", Int> p, Scalar<"q", Int> q, Scalar<"id", Int> id)
        {
            auto t = wire<Ticker>(w, Int{p.value()}, Int{q.value()}, Int{id.value() * 10 + 1});
            return wire<C2<InputValidity::Unchecked, InputValidity::Valid>>(w, x, t, Int{id.value() * 10 + 2}, Int{0});
        }
    };
    struct SgPass
    {   // pass-through output
        static constexpr auto name = "hv_sg_pass";
        static SP compose(Wiring &w, SP x, Scalar<"p", Int> p, Scalar<"q", Int> q, Scalar<"id", Int> id) { return x; }
    };
    struct SgFb
    {   // feedback inside: running sum of x
        static constexpr auto name = "hv_sg_fb";
        static SP compose(Wiring &w, SP x, Scalar<"p", Int> p, Scalar<"q", Int> q, Scalar<"id", Int> id)
        {
            auto prev = stdlib::feedback<TS<Int>>(w, Int{p.value()});
            auto sum  = wire<C2<>>(w, x, passive(prev()), Int{id.value() * 10 + 1}, Int{0});
            prev(sum);
            return sum;
        }
    };
    struct SgOwn
    {   // driven only by its own schedule: x is passive and unchecked
        static constexpr auto name = "hv_sg_own";
        static SP compose(Wiring &w, SP x, Scalar<"p", Int> p, Scalar<"q", Int> q, Scalar<"id", Int> id)
        {
            auto t = wire<Ticker>(w, Int{p.value()}, Int{q.value()}, Int{id.value() * 10 + 1});
            return wire<Sample>(w, t, x, Int{id.value() * 10 + 2});
        }
    };
    struct SgSched
    {   // scheduler-scripted node inside (script table entry id*10+1), driven by x as well
        static constexpr auto name = "hv_sg_sched";
        static SP compose(Wiring &w, SP x, Scalar<"p", Int> p, Scalar<"q", Int> q, Scalar<"id", Int> id)
        {
            return wire<Timer1>(w, x, Int{id.value() * 10 + 1});
        }
    };
    struct SgSchedV
    {   // scheduler-scripted node whose boundary input is required valid
        static constexpr auto name = "hv_sg_schedv";
        static SP compose(Wiring &w, SP x, Scalar<"p", Int> p, Scalar<"q", Int> q, Scalar<"id", Int> id)
        {
            return wire<Timer1V>(w, x, Int{id.value() * 10 + 1});
        }
    };
    struct SgDeep
    {   // a nested child inside the sub-graph
        static constexpr auto name = "hv_sg_deep";
        static SP compose(Wiring &w, SP x, Scalar<"p", Int> p, Scalar<"q", Int> q, Scalar<"id", Int> id)
        {
            auto a = wire<C1<>>(w, x, Int{id.value() * 10 + 1}, Int{0});
            return nested_<SgTimer>(w, a, Int{p.value()}, Int{q.value()}, Int{id.value() * 10 + 2}).as<TS<Int>>();
        }
    };
    struct SgFail
    {   // a chain whose middle node is a fault target (id*10+2); used below try_except_
        static constexpr auto name = "hv_sg_fail";
        static SP compose(Wiring &w, SP x, Scalar<"p", Int> p, Scalar<"q", Int> q, Scalar<"id", Int> id)
        {
            auto a = wire<C1<>>(w, x, Int{id.value() * 10 + 1}, Int{0});
            auto b = wire<Accum>(w, a, Int{id.value() * 10 + 2});
            return wire<C1<>>(w, b, Int{id.value() * 10 + 3}, Int{0});
        }
    };
    struct SgFailT
    {   // a fault target (id*10+1) followed, in the same child, by an independent self-scheduling sibling (Timer1 id*10+2)
        // whose timer may be due in the very cycle in which the target throws
        static constexpr auto name = "hv_sg_fail_t";
        static SP compose(Wiring &w, SP x, Scalar<"p", Int> p, Scalar<"q", Int> q, Scalar<"id", Int> id)
        {
            auto a = wire<C1<>>(w, x, Int{id.value() * 10 + 1}, Int{0});
            auto t = wire<Timer1>(w, x, Int{id.value() * 10 + 2});        // scheduler-scripted (tscript id*10+2), also driven by x
            return wire<C2<InputValidity::Unchecked, InputValidity::Unchecked>>(w, a, t, Int{id.value() * 10 + 3}, Int{0});
        }
    };
    // (4) a wake-up asked for through the stateless SingleShotScheduler in start(), on a node that also has an active input
    struct SShot
    {
        static constexpr auto name = "hv_sshot";
        static void start(Scalar<"id", Int> id, Scalar<"at", Int> when, SingleShotScheduler s)
        {
            u_start(id.value());
            s.schedule(at(when.value()));
            Line("req").i("id", id.value()).i("t", off(s.now())).i("when", when.value()).b("in_start", true).emit();
        }
        static void stop(Scalar<"id", Int> id) { u_stop(id.value()); }
        static void eval(In<"a", TS<Int>, InputValidity::Unchecked> a, Scalar<"id", Int> id, Scalar<"at", Int> when, DateTime now, Out<TS<Int>> out)
        {
            InLog il;
            il.add(a);
            u_eval(id.value(), now, il.done());
            const long long v = norm((a.valid() ? a.value() : 0) + (off(now) == when.value() ? 1000 : 0));
            out.set(Int{v});
            u_out(id.value(), now, v);
        }
    };
    struct SgCtx
    {   // the same definition with equal scalars applied to the declared input #0 and to a port imported from the enclosing
        // context (capture #0): two nodes that differ only in that input
        static constexpr auto name = "hv_sg_ctx";
        static SP compose(Wiring &w, SP x, Scalar<"p", Int> p, Scalar<"q", Int> q, Scalar<"id", Int> id)
        {
            auto ctx = context::get<TS<Int>>(w, "hvctx");
            auto a   = wire<C1<>>(w, x, Int{id.value() * 10 + 1}, Int{0});
            auto b   = wire<C1<>>(w, ctx, Int{id.value() * 10 + 1}, Int{0});
            return wire<C2<>>(w, a, b, Int{id.value() * 10 + 2}, Int{p.value() % 3});
        }
    };
    template <typename G>
    struct Wrap
    {
        static constexpr auto name = "hv_wrap";
        static SP compose(Wiring &w, SP x, Scalar<"p", Int> p, Scalar<"q", Int> q, Scalar<"id", Int> id)
        {
            return nested_<G>(w, x, Int{p.value()}, Int{q.value()}, Int{id.value()}).template as<TS<Int>>();
        }
    };
}  // namespace hv
