#include <hgraph/lib/testing/runtime_support.h>
#include <hgraph/lib/std/std_nodes.h>
#include <hgraph/lib/std/std_operators.h>
#include <hgraph/lib/std/operators/impl/operators_impl.h>
#include <hgraph/runtime/runtime.h>
#include <hgraph/types/graph_wiring.h>
#include <hgraph/types/static_node.h>
#include <iostream>
using namespace hgraph;

struct Ticker {
    static constexpr auto name = "ticker";
    static constexpr bool schedule_on_start = true;
    static void eval(NodeScheduler sched, Scalar<"count", Int> count, State<Int> n, Out<TS<Int>> out) {
        out.set(n.get()); n.set(n.get()+1);
        if (n.get() < count.value()) sched.schedule(MIN_TD*2);
    }
};
struct AddOne { static constexpr auto name="add_one"; static void eval(In<"in", TS<Int>> in, Out<TS<Int>> out){ out.set(in.value()+1);} };
struct Print { static constexpr auto name="print"; static void eval(In<"in", TS<Int>> in, DateTime t){ std::cout << t.time_since_epoch().count() << " " << in.value() << "\n";} };
struct G { static constexpr auto name="g"; static void compose(Wiring& w){ auto s = wire<Ticker>(w, Int{3}); wire<Print>(w, wire<AddOne>(w, s)); } };

struct Obs : LifecycleObserver {
  void on_before_node_evaluation(const NodeView& n) override { std::cout << "eval node " << n.node_index() << " " << n.label() << "\n"; }
};
int main(){
  stdlib::register_control_operators(); stdlib::register_higher_order_operators(); stdlib::register_arithmetic_operators(); stdlib::register_record_replay_memory_operators();
  GraphBuilder gb = build_graph<G>();
  Obs obs;
  GraphExecutorBuilder eb; eb.graph_builder(std::move(gb)).start_time(MIN_ST).end_time(MIN_ST+TimeDelta{100}).add_lifecycle_observer(&obs);
  auto ex = eb.make_executor(); ex.view().run();
  std::cout << "done\n";
}
