// hgsim: scenario interpreter over the hgraph C++ runtime compiled from /repo's working tree.
//   hgsim            read one scenario from stdin, run it, print the event log (JSON lines) on stdout
//   hgsim --server   fork server: scenarios separated by a line "END"; each runs in a forked child of the warmed-up
//                    parent (same process history for every scenario); the parent prints {"k":"exit",...} after each.
#include <sys/personality.h>
#include <unistd.h>
#include "common.h"

#include <hgraph/lib/std/operators/registration.h>

#include <sys/wait.h>
#include <unistd.h>

#include <csignal>
#include <iostream>

using namespace hv;

static void on_crash(int sig)
{
    // best effort: keep what was logged so far
    log_flush();
    const char msg[] = "{\"k\":\"crash\"}\n";
    (void)!::write(1, msg, sizeof msg - 1);
    signal(sig, SIG_DFL);
    raise(sig);
}

static int run_one(const std::string &text)
{
    Scenario sc;
    try
    {
        sc = parse_scenario(text);
        Line("hdr").str("mode", sc.mode).emit();
        int rc;
        if (sc.mode == "dataflow") rc = run_dataflow(sc);
        else if (sc.mode == "concurrent") rc = run_concurrent(sc);
        else if (sc.mode == "collections") rc = run_collections(sc);
        else if (sc.mode == "higher_order") rc = run_higher_order(sc);
        else if (sc.mode == "threads") rc = run_threads(sc);
        else throw std::invalid_argument("unknown mode '" + sc.mode + "'");
        log_flush();
        return rc;
    }
    catch (const std::exception &e)
    {
        Line("harness_error").str("what", e.what()).emit();
        log_flush();
        return 3;
    }
}

static void warm_up()
{
    // Registration and function-local statics are initialised before any scenario (and before any simulated thread
    // exists): a simulated thread pre-empted inside a static-init guard would block for real.
    stdlib::register_standard_operators();
    T0 = MIN_ST.time_since_epoch().count();
    g_log_enabled = false;
    const char *warm =
        "mode dataflow\nwindow 0 6\nscript 1 0:1,2:2\nn1 = source id=1\nn2 = c1 n1 id=2\nn3 = accum n2 id=3\n"
        "n4 = nested SgTimer n3 p=2 q=1 id=4\nrec 5 n4\n";
    Scenario sc = parse_scenario(warm);
    run_dataflow(sc);
    reset_all_tables();
    g_log_enabled = true;
}

int main(int argc, char **argv)
{
    // One more source of nondeterminism behind a seam: address-space layout randomisation. Addresses steer hash-table
    // probe lengths and pointer-ordered containers, i.e. the number of function calls between two events - which is the
    // clock of the instrumented build's pre-emption points (and once changed a wiring error message). The harness re-executes
    // itself once with ADDR_NO_RANDOMIZE so that a scenario sees the same addresses in every process.
    if (getenv("HGSIM_ASLR_OFF") == nullptr)
    {
        const int pers = personality(0xffffffff);
        if (pers != -1 && !(pers & ADDR_NO_RANDOMIZE) && personality(pers | ADDR_NO_RANDOMIZE) != -1)
        {
            setenv("HGSIM_ASLR_OFF", "1", 1);
            execv("/proc/self/exe", argv);
        }
        setenv("HGSIM_ASLR_OFF", "0", 1);     // not permitted here: carry on with randomised addresses
    }
    signal(SIGSEGV, on_crash);
    signal(SIGABRT, on_crash);
    signal(SIGBUS, on_crash);
    signal(SIGFPE, on_crash);
    const bool server = argc > 1 && std::string(argv[1]) == "--server";
    const bool nowarm = argc > 1 && std::string(argv[1]) == "--nowarm";
    if (!server)
    {
        if (nowarm) { stdlib::register_standard_operators(); T0 = MIN_ST.time_since_epoch().count(); }
        else warm_up();
        std::string text((std::istreambuf_iterator<char>(std::cin)), std::istreambuf_iterator<char>());
        return run_one(text);
    }
    warm_up();
    {
        const char ready[] = "{\"k\":\"ready\"}\n";
        (void)!::write(1, ready, sizeof ready - 1);
    }
    std::string text, line;
    // the parent's heap must look the same whatever scenarios went before: every child then starts from the same allocator
    // state (addresses steer probe lengths and with them the function-call clock of the instrumented build)
    text.reserve(8u << 20);
    line.reserve(4u << 20);
    while (std::getline(std::cin, line))
    {
        if (line != "END") { text += line; text += "\n"; continue; }
        if (text.rfind("NOFORK\n", 0) == 0)
        {   // run in the server process itself: later scenarios see this one as process history (C07)
            int rc = run_one(text.substr(7));
            reset_all_tables();
            Line l("exit");
            l.i("status", rc).i("signal", 0).emit();
            log_flush();
            text.clear();
            continue;
        }
        pid_t pid = fork();
        if (pid == 0)
        {
            int rc = run_one(text);
            _exit(rc);
        }
        int status = 0;
        waitpid(pid, &status, 0);
        Line l("exit");
        l.i("status", WIFEXITED(status) ? WEXITSTATUS(status) : -1).i("signal", WIFSIGNALED(status) ? WTERMSIG(status) : 0).emit();
        log_flush();
        text.clear();
    }
    return 0;
}
