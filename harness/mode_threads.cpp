// mode threads: the real real-time executor, real push sources and scripted producer / stopper threads under the
// deterministic thread + clock simulator (simthreads). Serves C16 and C17.
//
//   window start=<us> end=<us> slice=<us>        start/end relative to the simulated wall clock at process start
//   push <name> policy=queue|burst|conflating capacity=<n> id=<rec id> [work=<us>]
//   timer <id> <tscript>                          scheduler-scripted source (ops as in dataflow mode + w+N / w@N wall-clock alarms)
//   work <id> <us>                                the recorder of timer/push <id> sleeps that long inside its evaluation (lagging graph)
//   thread <name>: op; op; ...                    ops: try <push> <v> | block <push> <v> | sleep <us> | yield | stop
//   faults spurious=<p> stall=<p> stall_us=<n> late=<p> late_us=<n> starve=<thread index>:<from>:<steps> jitter=<n>
//   seed <n>     tape <comma list> | emit_tape    (replay the listed scheduler/fault decisions instead of the seed's; log them)
#include "common.h"
#include "simthreads.h"
#include "vocab.h"

#include <hgraph/runtime/push_source_node.h>
#include <hgraph/types/static_schema.h>
#include <hgraph/types/type_resolution.h>

#include <dlfcn.h>
#include <cstdio>
#include <memory>

namespace hv
{
    using namespace hgraph;

    namespace
    {
        struct PushDef
        {
            std::string name;
            std::string policy{"queue"};
            size_t capacity{0};
            long long id{0};
            PushSourceSender sender;
            bool started{false};
        };
        struct TimerDef { long long id; };
        struct ThreadOp { std::string op; std::string push; long long n{0}; };
        struct ThreadDef { std::string name; std::vector<ThreadOp> ops; };

        std::vector<std::unique_ptr<PushDef>> g_push;
        std::vector<TimerDef> g_timers;
        std::map<long long, long long> g_work;   // rec id -> simulated evaluation cost (us)
        long long g_start_wall = 0;
        bool g_root_started = false;     // set once the root graph has started (the run loop proper is under way)

        long long wall_off() { return sim::now_us() - g_start_wall; }

        struct PushTag {};

        // recorder for TS<Int> deliveries
        struct RtRec
        {
            static constexpr auto name = "hv_rtrec";
            static void eval(In<"a", TS<Int>> a, Scalar<"id", Int> id, DateTime now)
            {
                Line("dlv").i("id", id.value()).i("t", off(now)).i("wall", wall_off()).i("v", a.value()).i("seq", sim::seq()).emit();
                auto w = g_work.find(id.value());
                if (w != g_work.end() && w->second > 0) sim::sleep_us(w->second);   // a slow evaluation: the graph lags
            }
        };
        // recorder for burst deliveries (tuple of Int)
        struct RtRecBurst
        {
            static constexpr auto name = "hv_rtrec_burst";
            static void eval(In<"a", TS<HomogeneousTuple<Int>>> a, Scalar<"id", Int> id, DateTime now)
            {
                std::string vals = "[";
                auto tv = a.base().value().as_list();
                for (size_t i = 0; i < tv.size(); ++i)
                {
                    if (i) vals += ",";
                    vals += std::to_string(static_cast<long long>(tv[i].template checked_as<Int>()));
                }
                vals += "]";
                Line("dlv").i("id", id.value()).i("t", off(now)).i("wall", wall_off()).raw("vs", vals).i("seq", sim::seq()).emit();
                auto w = g_work.find(id.value());
                if (w != g_work.end() && w->second > 0) sim::sleep_us(w->second);
            }
        };

        struct StartFlag : LifecycleObserver
        {
            void on_after_start_graph(const GraphView &g) override { if (g.is_root()) g_root_started = true; }
        };

        // scheduler-scripted real-time source: logs every evaluation with the wall clock
        struct RtTimer
        {
            static constexpr auto name = "hv_rttimer";
            static void start(Scalar<"id", Int> id, NodeScheduler s, State<Int> n)
            {
                n.set(Int{0});
                rt_ops(id.value(), 0, s, true);
            }
            static void eval(Scalar<"id", Int> id, NodeScheduler s, DateTime now, State<Int> n, Out<TS<Int>> out)
            {
                n.set(n.get() + 1);
                Line("tev").i("id", id.value()).i("t", off(now)).i("wall", wall_off()).i("ek", n.get()).i("seq", sim::seq()).emit();
                rt_ops(id.value(), n.get(), s, false);
                out.set(Int{n.get()});
            }
            static void rt_ops(long long id, long long k, NodeScheduler &s, bool in_start)
            {
                auto ti = ctx().timer_script.find(id);
                if (ti == ctx().timer_script.end()) return;
                auto ki = ti->second.find(k);
                if (ki == ti->second.end()) return;
                for (auto &op : ki->second)
                {
                    std::optional<std::string> tag = op.tag.empty() ? std::nullopt : std::optional<std::string>(op.tag);
                    Line l("treq");
                    l.i("id", id).i("t", off(s.now())).i("wall", wall_off()).i("ek", k).b("in_start", in_start).str("op", std::string(1, op.kind)).i("arg", op.n).str("tag", op.tag);
                    switch (op.kind)
                    {
                        case '+': s.schedule(MIN_TD * op.n, tag); break;
                        case '@': s.schedule(at(op.n), tag); break;
                        case 'w': s.schedule(MIN_TD * op.n, tag, true); break;       // wall-clock alarm, relative
                        case 'a': s.schedule(at(op.n), tag, true); break;            // wall-clock alarm, absolute (may already be due)
                        case 'u': s.un_schedule(op.tag); break;
                        case 'U': s.un_schedule(); break;
                        case 'r': s.reset(); break;
                        default: throw std::invalid_argument("rt tscript: unknown op");
                    }
                    l.raw("next", tstr(s.next_scheduled_time())).emit();
                }
            }
        };

        // the same scripted scheduler node with a push-fed input ("watchdog": a heartbeat re-arms a time-out next to other pending
        // alarms): it is evaluated by input ticks at times when none of its own timers is due, and may move or cancel its earliest
        // pending event there, so that another, already pending event becomes the earliest
        struct RtWatch
        {
            static constexpr auto name = "hv_rtwatch";
            static void start(Scalar<"id", Int> id, NodeScheduler s, State<Int> n)
            {
                n.set(Int{0});
                RtTimer::rt_ops(id.value(), 0, s, true);
            }
            static void eval(In<"a", TS<Int>, InputValidity::Unchecked> a, Scalar<"id", Int> id, NodeScheduler s, DateTime now, State<Int> n, Out<TS<Int>> out)
            {
                n.set(n.get() + 1);
                Line("tev").i("id", id.value()).i("t", off(now)).i("wall", wall_off()).i("ek", n.get()).i("inp", a.modified() ? 1 : 0).i("due", s.is_scheduled_now() ? 1 : 0).i("seq", sim::seq()).emit();
                RtTimer::rt_ops(id.value(), n.get(), s, false);
                out.set(Int{n.get()});
            }
        };
        struct WatchDef { long long id; std::string push; };
        std::vector<WatchDef> g_watches;

        const Scenario *g_tsc = nullptr;

        struct RtRoot
        {
            static constexpr auto name = "hv_rt_root";
            static void compose(Wiring &w)
            {
                const auto *ts_int   = ts_type<TS<Int>>();
                const auto *ts_batch = ts_type<TS<HomogeneousTuple<Int>>>();
                std::map<std::string, WiringPortRef> push_ports;
                for (auto &pp : g_push)
                {
                    PushDef *pd = pp.get();
                    auto on_start = [pd](PushSourceSender s) {
                        pd->sender  = std::move(s);
                        pd->started = true;
                        Line("pstart").str("push", pd->name).i("seq", sim::seq()).emit();
                    };
                    if (pd->policy == "burst")
                    {
                        NodeBuilder nb = make_push_source_node(*ts_batch, make_push_source_burst_policy(*ts_batch, pd->capacity), on_start);
                        WiringPortRef ref = w.add_unique_node(std::type_index(typeid(PushTag)), std::move(nb), std::span<const WiringPortRef>{}, Value{});
                        Port<TS<HomogeneousTuple<Int>>> p{w, std::move(ref)};
                        wire<RtRecBurst>(w, p, Int{pd->id});
                    }
                    else
                    {
                        PushSourcePolicy pol = pd->policy == "conflating" ? make_push_source_conflating_policy(*ts_int)
                                                                          : make_push_source_queue_policy(*ts_int, pd->capacity);
                        NodeBuilder nb = make_push_source_node(*ts_int, std::move(pol), on_start);
                        WiringPortRef ref = w.add_unique_node(std::type_index(typeid(PushTag)), std::move(nb), std::span<const WiringPortRef>{}, Value{});
                        Port<TS<Int>> p{w, std::move(ref)};
                        wire<RtRec>(w, p, Int{pd->id});
                        push_ports[pd->name] = p.erased();
                    }
                }
                for (auto &wd : g_watches)
                {
                    auto it = push_ports.find(wd.push);
                    if (it == push_ports.end()) throw std::invalid_argument("threads: watch needs a queue / conflating push source: " + wd.push);
                    auto p = wire<RtWatch>(w, Port<TS<Int>>{w, it->second}, Int{wd.id});
                    wire<RtRec>(w, p, Int{wd.id + 1000});
                }
                for (auto &t : g_timers)
                {
                    auto p = wire<RtTimer>(w, Int{t.id});
                    wire<RtRec>(w, p, Int{t.id + 1000});
                }
            }
        };

        PushDef *find_push(const std::string &n)
        {
            for (auto &p : g_push) if (p->name == n) return p.get();
            throw std::invalid_argument("threads: unknown push source " + n);
        }

        void parse_rt_timer_script(long long id, const std::string &text)
        {
            // same grammar as the dataflow tscript, plus w+N (wall-clock alarm, relative) and w@N (absolute)
            auto &tab = ctx().timer_script[id];
            for (auto &grp : split(text, ';'))
            {
                if (grp.empty()) continue;
                auto colon = grp.find(':');
                long long k = std::stoll(grp.substr(0, colon));
                for (auto &o : split(grp.substr(colon + 1), ','))
                {
                    if (o.empty()) continue;
                    TimerOp op{};
                    std::string body = o;
                    auto h = o.find('#');
                    if (h != std::string::npos) { op.tag = o.substr(h + 1); body = o.substr(0, h); }
                    if (body[0] == 'w') { op.kind = body[1] == '+' ? 'w' : 'a'; op.n = std::stoll(body.substr(2)); }
                    else
                    {
                        op.kind = body[0];
                        if (op.kind == '+' || op.kind == '@') op.n = std::stoll(body.substr(1));
                        else if (op.kind == 'u' && op.tag.empty()) op.kind = 'U';
                    }
                    tab[k].push_back(op);
                }
            }
        }
    }  // namespace

    // candidate sites of the sweep: address (stable: ASLR is off), thread, number of entries, and - where the dynamic symbol
    // table knows it - the enclosing function, so that a report can say where the pre-emption was
    std::string profiled_sites_json()
    {
        std::string js = "[";
        bool first = true;
        for (auto &si : sim::profiled_sites())
        {
            if (!first) js += ",";
            first = false;
            char buf[64];
            std::snprintf(buf, sizeof buf, "%llx", si.site);
            Dl_info di{};
            std::string sym;
            if (dladdr(reinterpret_cast<void *>(static_cast<uintptr_t>(si.site)), &di) && di.dli_sname != nullptr)
            {
                sym = di.dli_sname;
                char off[32];
                std::snprintf(off, sizeof off, "+%llx", static_cast<unsigned long long>(si.site - reinterpret_cast<uintptr_t>(di.dli_saddr)));
                sym += off;
            }
            js += "[\"" + std::string(buf) + "\"," + std::to_string(si.thread) + "," + std::to_string(si.entries) + ",\"" + sym + "\"]";
        }
        return js + "]";
    }

    int run_threads(const Scenario &sc)
    {
        g_tsc = &sc;
        sim::Config cfg;
        long long start_off = 0, end_off = 2'000'000, slice = 10'000'000;
        std::vector<ThreadDef> threads;
        for (auto &st : sc.stmts)
        {
            const auto &k = st.tok[0];
            if (k == "seed") cfg.seed = std::stoull(st.tok.at(1));
            else if (k == "window") { start_off = st.geti("start", 0); end_off = st.geti("end", end_off); slice = st.geti("slice", slice); }
            else if (k == "push")
            {
                auto pd      = std::make_unique<PushDef>();
                pd->name     = st.tok.at(1);
                pd->policy   = st.get("policy", "queue");
                pd->capacity = static_cast<size_t>(st.geti("capacity", 0));
                pd->id       = st.geti("id", static_cast<long long>(g_push.size()) + 1);
                if (st.has("work")) g_work[pd->id] = st.geti("work");
                g_push.push_back(std::move(pd));
            }
            else if (k == "timer")
            {
                long long id = std::stoll(st.tok.at(1));
                g_timers.push_back({id});
                parse_rt_timer_script(id, st.tok.size() > 2 ? st.tok[2] : "");
            }
            else if (k == "watch")
            {   // watch <id> <push name> <tscript>
                long long id = std::stoll(st.tok.at(1));
                g_watches.push_back({id, st.tok.at(2)});
                parse_rt_timer_script(id, st.tok.size() > 3 ? st.tok[3] : "");
            }
            else if (k == "work") g_work[std::stoll(st.tok.at(1))] = std::stoll(st.tok.at(2));
            else if (k == "thread")
            {
                ThreadDef td;
                td.name = st.tok.at(1);
                if (!td.name.empty() && td.name.back() == ':') td.name.pop_back();
                auto colon = st.text.find(':');
                std::string body = colon == std::string::npos ? "" : st.text.substr(colon + 1);
                for (auto &o : split(body, ';'))
                {
                    std::istringstream is(o);
                    ThreadOp op;
                    if (!(is >> op.op)) continue;
                    if (op.op == "try" || op.op == "block") { is >> op.push >> op.n; }
                    else if (op.op == "sleep") { is >> op.n; }
                    td.ops.push_back(op);
                }
                threads.push_back(std::move(td));
            }
            else if (k == "faults")
            {
                cfg.p_spurious   = std::stod(st.get("spurious", "0"));
                cfg.p_stall      = std::stod(st.get("stall", "0"));
                cfg.stall_max_us = st.geti("stall_us", 1000);
                cfg.p_late       = std::stod(st.get("late", "0"));
                cfg.late_max_us  = st.geti("late_us", 100);
                cfg.step_jitter_us = static_cast<int>(st.geti("jitter", 3));
                if (st.has("starve"))
                {
                    auto p = split(st.get("starve"), ':');
                    cfg.starve_thread = std::stoi(p.at(0));
                    cfg.starve_from   = std::stoll(p.at(1));
                    cfg.starve_steps  = std::stoll(p.at(2));
                }
            }
            else if (k == "tape")
            {   // tape <comma list>: replay these scheduler / fault decisions instead of drawing them from the seed
                cfg.use_tape = true;
                if (st.tok.size() > 1)
                    for (auto &d : split(st.tok[1], ',')) if (!d.empty()) cfg.tape.push_back(std::stoll(d));
            }
            else if (k == "emit_tape") cfg.record_tape = true;
            else if (k == "instr")
            {   // instrumented build: extra pre-emption points
                cfg.instr_interval = std::stoi(st.tok.at(1)); cfg.instr_target_mod = static_cast<int>(st.geti("target", 0)); cfg.instr_target_cap = static_cast<int>(st.geti("cap", 20000));
                cfg.instr_profile = st.geti("profile", 0) != 0;
                if (st.has("site")) cfg.instr_site = std::stoull(st.get("site"), nullptr, 16);
                cfg.instr_site_skip = static_cast<int>(st.geti("skip", 0));
            }
            else if (k == "maxsteps") cfg.max_steps = std::stoll(st.tok.at(1));
            if (k == "instr" && cfg.max_steps < 5'000'000) cfg.max_steps = 5'000'000;     // every extra pre-emption point is a step
        }
        g_start_wall = cfg.start_wall_us;
        T0           = cfg.start_wall_us;   // offsets in this mode are relative to the simulated wall clock at process start

        Observer obs;
        StartFlag start_flag;
        obs.log_lifecycle = true;
        GraphBuilder gb;
        try { gb = build_graph<RtRoot>(WiringOptions{.is_realtime = true}); }
        catch (const std::exception &e)
        {
            Line("wire_error").str("what", e.what()).emit();
            Line("end").str("run", "wire_error").emit();
            return 0;
        }
        log_builder(gb);
        // un-simulated clock must already be the simulated one while the executor captures its start time
        clock_fault_config(cfg.seed, 0, 0, false);
        GraphExecutorBuilder eb;
        eb.graph_builder(std::move(gb)).mode(GraphExecutorMode::RealTime).start_time(at(start_off)).end_time(at(end_off))
            .max_wait_slice(TimeDelta{slice}).add_lifecycle_observer(&obs).add_lifecycle_observer(&start_flag);
        auto executor = eb.make_executor();

        sim::configure(cfg);
        sim::set_log(true);
        // thread 0: the engine
        sim::spawn("engine", [&] {
            Line("thr").str("th", "engine").str("op", "run").str("phase", "inv").i("seq", sim::seq()).i("wall", wall_off()).emit();
            try
            {
                executor.view().run();
                Line("thr").str("th", "engine").str("op", "run").str("phase", "ret").str("res", "ok").i("seq", sim::seq()).i("wall", wall_off()).emit();
            }
            catch (const std::exception &e)
            {
                Line("thr").str("th", "engine").str("op", "run").str("phase", "ret").str("res", "threw").str("what", e.what()).i("seq", sim::seq()).i("wall", wall_off()).emit();
            }
        });
        for (auto &td : threads)
        {
            ThreadDef *t = &td;
            sim::spawn(td.name, [t, &executor] {
                for (auto &op : t->ops)
                {
                    if (op.op == "try" || op.op == "block")
                    {
                        PushDef *pd = find_push(op.push);
                        // the sender exists once the push source has started; a producer started early polls for it
                        int polls = 0;
                        while (!pd->started && polls < 10000) { sim::sleep_us(1); ++polls; }
                        Line("thr").str("th", t->name).str("op", op.op).str("push", op.push).i("v", op.n).str("phase", "inv").i("seq", sim::seq()).i("wall", wall_off()).i("eng", sim::thread_state(0)).emit();
                        bool ok = op.op == "try" ? pd->sender.try_send(Int{op.n}) : pd->sender.send_blocking(Int{op.n});
                        Line("thr").str("th", t->name).str("op", op.op).str("push", op.push).i("v", op.n).str("phase", "ret").b("res", ok).i("seq", sim::seq()).i("wall", wall_off()).emit();
                    }
                    else if (op.op == "sleep") sim::sleep_us(op.n);
                    else if (op.op == "yield") sim::yield();
                    else if (op.op == "stop")
                    {
                        // run() clears a stale stop flag when it begins (executor reuse): a request made before the loop
                        // is under way is outside the statement, so the stopper waits for the root graph to have started
                        int polls = 0;
                        while (!g_root_started && polls < 10000) { sim::sleep_us(1); ++polls; }
                        Line("thr").str("th", t->name).str("op", "stop").str("phase", "inv").i("seq", sim::seq()).i("wall", wall_off()).emit();
                        executor.view().request_stop();
                        Line("thr").str("th", t->name).str("op", "stop").str("phase", "ret").i("seq", sim::seq()).i("wall", wall_off()).emit();
                    }
                }
                Line("thr").str("th", t->name).str("op", "exit").str("phase", "ret").i("seq", sim::seq()).i("wall", wall_off()).emit();
            });
        }
        sim::run_all();
        const auto &s = sim::stats();
        std::string tr;
        for (int x : sim::trace()) { if (!tr.empty()) tr += ","; tr += std::to_string(x); }
        if (cfg.record_tape || cfg.use_tape)
        {
            std::string tp;
            for (long long x : sim::tape_record()) { if (!tp.empty()) tp += ","; tp += std::to_string(x); }
            Line("tape").i("n", static_cast<long long>(sim::tape_record().size())).str("v", tp).emit();
        }
        if (cfg.instr_profile) Line("sites").raw("v", profiled_sites_json()).emit();
        Line("end").str("run", "done").i("steps", s.steps).i("preemptions", s.preemptions).i("clock_jumps", s.clock_jumps).i("forced_timeouts", s.forced_timeouts)
            .i("spurious", s.spurious).i("stalls", s.stalls).i("late", s.late).i("starved", s.starved).i("mutex_blocks", s.mutex_blocks)
            .i("cond_waits", s.cond_waits).i("timed_waits", s.timed_waits).i("notifies", s.notifies).i("instr_points", s.instr_points).i("sim_elapsed_us", sim::now_us() - g_start_wall)
            .str("trace_hash", std::to_string(sim::trace_hash())).str("trace", tr).emit();
        return 0;
    }
}  // namespace hv
// site sweep options: instr <n> profile=1 | site=<hex> skip=<n>
