#include "collvocab.h"

namespace hv::cv
{
    void parse_wscript(const Stmt &st)
    {   // wscript <id> <text>: groups separated by ';;', ops by '|'; first field of a group is the offset
                long long id = std::stoll(st.tok.at(1));
                std::string text = st.text.substr(st.text.find(st.tok.at(1), st.text.find("wscript") + 7) + st.tok.at(1).size());
                size_t pos = 0;
                while (pos < text.size())
                {
                    size_t e = text.find(";;", pos);
                    std::string grp = text.substr(pos, e == std::string::npos ? std::string::npos : e - pos);
                    pos = e == std::string::npos ? text.size() : e + 2;
                    // trim
                    while (!grp.empty() && grp.front() == ' ') grp.erase(grp.begin());
                    while (!grp.empty() && grp.back() == ' ') grp.pop_back();
                    if (grp.empty()) continue;
                    auto parts = split(grp, '|');
                    long long o = std::stoll(parts.at(0));
                    auto &ops = g_wscript[id][o];
                    for (size_t i = 1; i < parts.size(); ++i)
                    {
                        auto eq = parts[i].find('=');
                        if (eq == std::string::npos) ops.push_back({parts[i], ""});
                        else ops.push_back({parts[i].substr(0, eq), parts[i].substr(eq + 1)});
                    }
                }
            }
}  // namespace hv::cv
