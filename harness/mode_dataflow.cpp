// mode dataflow: programs over TS<Int> ports built at run time from a fixed vocabulary of static nodes and sub-graphs.
// Serves C01 C02 C03 C06 C07 C08 C09 C14 C15 C18.
#include <optional>
#include "common.h"
#include "vocab.h"
#include "simthreads.h"

#include <hgraph/util/scope.h>
#include <memory>

#include <hgraph/lib/std/operators/control.h>

namespace hv
{
    using namespace hgraph;

    namespace
    {
        using P = Port<TS<Int>>;

        struct Prog
        {
            const Scenario *sc{nullptr};
            std::map<std::string, P> ports;
            std::map<std::string, stdlib::FeedbackWiringPort<TS<Int>>> fbs;
            std::map<std::string, DelayedBindingWiringPort<TS<Int>>> delayed;
            std::vector<std::unique_ptr<context::scope<"hvctx">>> ctx_scopes;   // entered by `ctxscope`, left (in reverse) when wiring ends
            ~Prog() { while (!ctx_scopes.empty()) ctx_scopes.pop_back(); }
        };
        const Scenario *g_sc = nullptr;

        P port_of(Prog &pg, const std::string &name_in)
        {
            std::string name = name_in;
            bool pas = false;
            if (!name.empty() && name[0] == '~') { pas = true; name = name.substr(1); }   // ~x = passive(x)
            P p;
            if (auto f = pg.fbs.find(name); f != pg.fbs.end()) p = f->second();
            else if (auto d = pg.delayed.find(name); d != pg.delayed.end()) p = d->second();
            else
            {
                auto it = pg.ports.find(name);
                if (it == pg.ports.end()) throw std::invalid_argument("scenario: unknown port " + name);
                p = it->second;
            }
            return pas ? passive(p) : p;
        }

        template <template <InputValidity...> class N, InputValidity... Vs, typename... A>
        P wire_valid(Wiring &w, const std::string &valid, size_t i, const A &...a)
        {
            // valid = string over {V,U}: choose template args at run time
            if constexpr (sizeof...(Vs) == N<>::arity)
            {
                return wire<N<Vs...>>(w, a...);
            }
            else
            {
                char c = i < valid.size() ? valid[i] : 'V';
                if (c == 'U') return wire_valid<N, Vs..., InputValidity::Unchecked>(w, valid, i + 1, a...);
                return wire_valid<N, Vs..., InputValidity::Valid>(w, valid, i + 1, a...);
            }
        }

        template <typename G>
        P wire_sub(Wiring &w, const std::string &how, P x, Int p, Int q, Int id)
        {
            if (how == "inline") return wire<G>(w, x, p, q, id);
            if (how == "nested") return nested_<G>(w, x, p, q, id).template as<TS<Int>>();
            if (how == "nested2") return nested_<Wrap<G>>(w, x, p, q, id).template as<TS<Int>>();
            if (how == "nested3") return nested_<Wrap<Wrap<G>>>(w, x, p, q, id).template as<TS<Int>>();
            throw std::invalid_argument("scenario: unknown sub-graph wiring " + how);
        }

        P wire_sub_by_name(Wiring &w, const std::string &how, const std::string &g, P x, Int p, Int q, Int id)
        {
            if (g == "SgArith") return wire_sub<SgArith>(w, how, x, p, q, id);
            if (g == "SgAccum") return wire_sub<SgAccum>(w, how, x, p, q, id);
            if (g == "SgSrc") return wire_sub<SgSrc>(w, how, x, p, q, id);
            if (g == "SgTimer") return wire_sub<SgTimer>(w, how, x, p, q, id);
            if (g == "SgPass") return wire_sub<SgPass>(w, how, x, p, q, id);
            if (g == "SgFb") return wire_sub<SgFb>(w, how, x, p, q, id);
            if (g == "SgOwn") return wire_sub<SgOwn>(w, how, x, p, q, id);
            if (g == "SgSched") return wire_sub<SgSched>(w, how, x, p, q, id);
            if (g == "SgSchedV") return wire_sub<SgSchedV>(w, how, x, p, q, id);
            if (g == "SgDeep") return wire_sub<SgDeep>(w, how, x, p, q, id);
            if (g == "SgFail") return wire_sub<SgFail>(w, how, x, p, q, id);
            if (g == "SgCtx") return wire_sub<SgCtx>(w, how, x, p, q, id);
            if (g == "SgFailT") return wire_sub<SgFailT>(w, how, x, p, q, id);
            throw std::invalid_argument("scenario: unknown sub-graph " + g);
        }

        void wire_stmt(Wiring &w, Prog &pg, const Stmt &st)
        {
            const auto &t = st.tok;
            if (t[0] == "rec")
            {   // rec <id> <port>
                wire<Rec>(w, port_of(pg, t[2]), Int{std::stoll(t[1])});
                return;
            }
            if (t[0] == "recu")
            {   // recorder with an Unchecked input (logs validity too)
                wire<RecU>(w, port_of(pg, t[2]), Int{std::stoll(t[1])});
                return;
            }
            if (t[0] == "bind")
            {   // bind <feedback|delayed> <port>
                if (auto f = pg.fbs.find(t[1]); f != pg.fbs.end()) { f->second(port_of(pg, t[2])); return; }
                if (auto d = pg.delayed.find(t[1]); d != pg.delayed.end()) { d->second(port_of(pg, t[2])); return; }
                throw std::invalid_argument("scenario: bind of unknown handle " + t[1]);
            }
            if (t[0] == "err")
            {   // err <rec id> <port>: activate error capture on the producer of <port>, record its error output
                ErrorCaptureOptions opt;       // [depth=<n>] [values=<0|1>]: the diagnostic detail requested for this capture
                opt.trace_back_depth = static_cast<std::size_t>(st.geti("depth", 1));
                opt.capture_values   = st.geti("values", 0) != 0;
                auto e = exception_time_series(port_of(pg, t[2]), opt);
                wire<RecErr>(w, e, Int{std::stoll(t[1])});
                return;
            }
            if (t[0] == "stopat")
            {   // stopat <offset>: a source that requests engine stop at that time
                wire<StopAt>(w, Int{std::stoll(t[1])});
                return;
            }
            if (t[0] == "gsink")
            {   // gsink <id> <port>: write the port value into GlobalState["k<id>"] (C07 isolation)
                wire<GsWrite>(w, port_of(pg, t[2]), Int{std::stoll(t[1])});
                return;
            }
            if (t.size() < 3 || t[1] != "=") throw std::invalid_argument("scenario: bad statement: " + st.text);
            const std::string &name = t[0];
            const std::string &kind = t[2];
            const Int id{st.geti("id", 0)};
            std::vector<std::string> args;   // positional tokens after kind
            for (size_t i = 3; i < t.size(); ++i) if (t[i].find('=') == std::string::npos) args.push_back(t[i]);
            auto arg = [&](size_t i) { if (i >= args.size()) throw std::invalid_argument("scenario: missing arg: " + st.text); return port_of(pg, args[i]); };
            const std::string valid = st.get("valid", "VVV");
            const Int op{st.geti("op", 0)};
            P out;
            if (kind == "source") out = wire<Source>(w, id);
            else if (kind == "const") out = st.has("delay")
                                                ? wire<stdlib::const_>(w, Int{st.geti("value")}, TimeDelta{st.geti("delay")}).as<TS<Int>>()
                                                : wire<stdlib::const_>(w, Int{st.geti("value")}).as<TS<Int>>();
            else if (kind == "c1") out = wire_valid<C1>(w, valid, 0, arg(0), id, op);
            else if (kind == "c2") out = wire_valid<C2>(w, valid, 0, arg(0), arg(1), id, op);
            else if (kind == "c3") out = wire_valid<C3>(w, valid, 0, arg(0), arg(1), arg(2), id, op);
            else if (kind == "sample") out = wire<Sample>(w, arg(0), arg(1), id);
            else if (kind == "samplemid") out = wire<SampleMid>(w, arg(0), arg(1), arg(2), id);
            else if (kind == "lift2")
            {   // <name> = lift2 <a> <b> k=<slot> id=<id>: a scalar function lifted with lift<F>()
                const long long k = st.geti("k", 0);
                ctx().lift_id[k & 3] = static_cast<long long>(id);
                auto mk = []<int K>(std::integral_constant<int, K>) -> WiredFn { const WiredFn g = lift<LiftQ<K>>(); return g; };
                const WiredFn f = k == 0 ? mk(std::integral_constant<int, 0>{}) : k == 1 ? mk(std::integral_constant<int, 1>{}) : k == 2 ? mk(std::integral_constant<int, 2>{}) : mk(std::integral_constant<int, 3>{});
                const std::array<WiringPortRef, 2> la{arg(0).erased(), arg(1).erased()};
                out = P{w, f.wire(w, std::span<const WiringPortRef>{la.data(), la.size()})};
            }
            else if (kind == "conv")
                out = st.get("ty", "I") == "F" ? wire<FloatToInt>(w, wire<Conv, TS<Float>>(w, arg(0), id)).as<TS<Int>>()
                                              : wire<Conv, TS<Int>>(w, arg(0), id).as<TS<Int>>();
            else if (kind == "ctxscope")
            {   // <name> = ctxscope <port>: the port is offered as context "hvctx" to everything wired afterwards
                out = arg(0);
                pg.ctx_scopes.push_back(std::make_unique<context::scope<"hvctx">>(w, out));
            }
            else if (kind == "sshot") out = wire<SShot>(w, arg(0), id, Int{st.geti("at", 1)});
            else if (kind == "accum") out = wire<Accum>(w, arg(0), id);
            else if (kind == "ticker") out = wire<Ticker>(w, Int{st.geti("count", 3)}, Int{st.geti("period", 1)}, id);
            else if (kind == "timer0") out = wire<Timer0>(w, id);
            else if (kind == "timer1") out = wire<Timer1>(w, arg(0), id);
            else if (kind == "timer1p") out = wire<Timer1P>(w, arg(0), id);
            else if (kind == "timer1v") out = wire<Timer1V>(w, arg(0), id);
            else if (kind == "tobool")
            {
                throw std::invalid_argument("scenario: tobool only inside ite");
            }
            else if (kind == "ite")
            {   // ite c a b: condition = (c odd)
                auto c = wire<ToBool>(w, arg(0), id);
                out    = wire<stdlib::if_then_else>(w, c, arg(1), arg(2)).as<TS<Int>>();
            }
            else if (kind == "suml")
            {   // structural TSL source -> list consumer
                if (args.size() == 2) out = st.get("all", "0") == "1" ? wire<SumL2A>(w, {arg(0).erased(), arg(1).erased()}, id) : wire<SumL2>(w, {arg(0).erased(), arg(1).erased()}, id);
                else out = st.get("all", "0") == "1" ? wire<SumL3A>(w, {arg(0).erased(), arg(1).erased(), arg(2).erased()}, id) : wire<SumL3>(w, {arg(0).erased(), arg(1).erased(), arg(2).erased()}, id);
            }
            else if (kind == "sumb")
            {   // structural TSB source -> bundle consumer
                out = st.get("all", "0") == "1" ? wire<SumBA>(w, {WiringNamedPortRef{"a", arg(0).erased()}, WiringNamedPortRef{"b", arg(1).erased()}}, id)
                                                 : wire<SumB>(w, {WiringNamedPortRef{"a", arg(0).erased()}, WiringNamedPortRef{"b", arg(1).erased()}}, id);
            }
            else if (kind == "feedback")
            {
                if (st.has("init")) pg.fbs.emplace(name, stdlib::feedback<TS<Int>>(w, Int{st.geti("init")}));
                else pg.fbs.emplace(name, stdlib::feedback<TS<Int>>(w));
                return;
            }
            else if (kind == "delayed")
            {
                pg.delayed.emplace(name, delayed_binding<TS<Int>>(w));
                return;
            }
            else if (kind == "inline" || kind == "nested" || kind == "nested2" || kind == "nested3")
            {
                out = wire_sub_by_name(w, kind, args.at(0), port_of(pg, args.at(1)), Int{st.geti("p", 1)}, Int{st.geti("q", 1)}, id);
            }
            else if (kind == "tryexcept")
            {   // tryexcept <G> x p= q= id= : result TSB{exception,out}; 'out' is the port, the exception is recorded under rec id <eid>
                auto r   = (args.at(0) == "SgFailT"
                                ? try_except_<SgFailT>(w, port_of(pg, args.at(1)), Int{st.geti("p", 1)}, Int{st.geti("q", 1)}, id)
                                : try_except_<SgFail>(w, port_of(pg, args.at(1)), Int{st.geti("p", 1)}, Int{st.geti("q", 1)}, id)).as<TryResult>();
                auto ex  = wire<TryExc>(w, r, Int{st.geti("eid", 0)});
                (void)ex;
                out = wire<TryOut>(w, r, id);
            }
            else if (kind == "gsread") out = wire<GsRead>(w, arg(0), id);
            else throw std::invalid_argument("scenario: unknown node kind " + kind);
            pg.ports[name] = out;
        }

        struct Root
        {
            static constexpr auto name = "hv_root";
            static void compose(Wiring &w)
            {
                Prog pg;
                pg.sc = g_sc;
                for (auto &st : g_sc->stmts)
                {
                    const auto &k = st.tok[0];
                    if (k == "window" || k == "fault" || k == "option" || k == "script" || k == "tscript" || k == "clock" || k == "seed" || k == "repeat" || k == "gs") continue;
                    wire_stmt(w, pg, st);
                }
            }
        };
    }  // namespace

    namespace
    {
        struct Job
        {
            Ctx ctx;
            const Scenario *sc{nullptr};
            long long start_off{0}, end_off{100};
            bool cleanup{true};
            int repeat{1};
            bool log_ne{true};
            unsigned long long seed{0};
            double stall_rate{0};
            long long stall_max{0};
            bool coarse{false};
            std::uint32_t max_imm{0};
            GraphExecutorBuilder eb;
            Observer obs;
            bool wired{false};
            // option gctx=1: wiring, make_executor and run happen inside a GlobalContext selected on this thread (the
            // documented testing / lower() usage): the build fixes the seed from the live state, every run works on its own
            // isolation copy and its final state is copied back to the live state at run end
            bool use_gctx{false};
            std::unique_ptr<GlobalState> live;
            std::unique_ptr<GlobalContext> gctx;
        };

        // parse options + tables, wire the program (single-threaded; uses the wiring-time global g_sc)
        void prepare(Job &job, const Scenario &sc)
        {
            job.sc = &sc;
            g_sc   = &sc;
            Ctx *saved = g_ctx;
            g_ctx      = &job.ctx;
            auto restore = make_scope_exit([&] noexcept { g_ctx = saved; });
            for (auto &st : sc.stmts)
            {
                const auto &k = st.tok[0];
                if (k == "window") { job.start_off = std::stoll(st.tok.at(1)); job.end_off = std::stoll(st.tok.at(2)); }
                else if (k == "fault")
                {
                    int ph = st.tok.at(2) == "start" ? PH_START : st.tok.at(2) == "eval" ? PH_EVAL : PH_STOP;
                    job.ctx.faults.faults.push_back({std::stoll(st.tok.at(1)), ph, std::stoi(st.tok.at(3))});
                }
                else if (k == "option")
                {
                    if (st.has("cleanup_on_error")) job.cleanup = st.geti("cleanup_on_error") != 0;
                    if (st.has("repeat")) job.repeat = static_cast<int>(st.geti("repeat"));
                    if (st.has("log_ne")) job.log_ne = st.geti("log_ne") != 0;
                    if (st.has("max_immediate")) job.max_imm = static_cast<std::uint32_t>(st.geti("max_immediate"));
                    if (st.has("gctx")) job.use_gctx = st.geti("gctx") != 0;
                }
                else if (k == "script")
                {   // script <id> off:val,off:val
                    auto &tab = job.ctx.src_script[std::stoll(st.tok.at(1))];
                    if (st.tok.size() > 2)
                        for (auto &e : split(st.tok[2], ','))
                        {
                            auto p = split(e, ':');
                            tab[std::stoll(p.at(0))] = std::stoll(p.at(1));
                        }
                }
                else if (k == "tscript")
                {   // tscript <id> k:op,op;k:op
                    parse_timer_script(std::stoll(st.tok.at(1)), st.tok.size() > 2 ? st.tok[2] : "");
                }
                else if (k == "seed") job.seed = std::stoull(st.tok.at(1));
                else if (k == "clock")
                {
                    job.stall_rate = std::stod(st.get("stall_rate", "0"));
                    job.stall_max  = st.geti("stall_us", 0);
                    job.coarse     = st.geti("coarse", 0) != 0;
                }
            }
            job.obs.log_node_eval = job.log_ne;
            if (job.use_gctx)
            {
                job.live = std::make_unique<GlobalState>();
                for (auto &st : sc.stmts)
                    if (st.tok[0] == "gs") job.live->view().set(st.tok.at(1), Value{Int{std::stoll(st.tok.at(2))}});
                job.gctx = std::make_unique<GlobalContext>(*job.live);
            }
            GraphBuilder gb;
            try
            {
                gb = build_graph<Root>();
            }
            catch (const std::exception &e)
            {
                Line("wire_error").str("what", e.what()).emit();
                return;
            }
            log_builder(gb);
            for (auto &st : sc.stmts)
            {
                if (st.tok[0] == "gs" && !job.use_gctx)
                {   // gs <key> <int>: seed the builder's GlobalState (with gctx the live state was seeded before wiring)
                    gb.global_state().set(st.tok.at(1), Value{Int{std::stoll(st.tok.at(2))}});
                }
            }
            job.eb.graph_builder(std::move(gb)).start_time(at(job.start_off)).end_time(at(job.end_off)).add_lifecycle_observer(&job.obs).cleanup_on_error(job.cleanup);
            if (job.max_imm) job.eb.max_consecutive_immediate_cycles(job.max_imm);
            job.wired = true;
        }

        // make_executor + run (+ release), `repeat` times from the same executor builder
        void execute(Job &job)
        {
            Ctx *saved = g_ctx;
            g_ctx      = &job.ctx;
            auto restore = make_scope_exit([&] noexcept { g_ctx = saved; });
            for (int r = 0; r < job.repeat; ++r)
            {
                if (job.repeat > 1) Line("run").i("r", r).emit();
                reset_vocab_counters();
                job.obs.gid.clear();
                job.obs.next_gid = 0;
                {
                    std::optional<GraphExecutorValue> made;
                    try
                    {
                        made.emplace(job.eb.make_executor());
                    }
                    catch (const std::exception &e)
                    {   // the wired graph could not be instantiated (bindings are resolved here)
                        Line("wire_error").str("phase", "make_executor").str("what", e.what()).emit();
                        return;
                    }
                    auto &ex = *made;
                    try
                    {
                        ex.view().run();
                        Line("ran").str("run", "ok").emit();
                    }
                    catch (const std::exception &e)
                    {
                        Line("ran").str("run", "threw").str("what", e.what()).emit();
                    }
                    dump_global_state(ex.view().graph().global_state());
                    if (job.use_gctx) job.live->view().copy_from(ex.view().graph().global_state());   // results copy back at run end
                    Line("release").emit();
                }
                Line("released").emit();
            }
        }
    }  // namespace

    int run_dataflow(const Scenario &sc)
    {
        Job job;
        prepare(job, sc);
        if (!job.wired)
        {
            Line("end").str("run", "wire_error").emit();
            return 0;
        }
        clock_fault_config(job.seed, job.stall_rate, job.stall_max, job.coarse);
        execute(job);
        Line("end").str("run", "done").i("faults_fired", job.ctx.faults.fired).i("clock_faults", clock_faults_fired()).emit();
        return 0;
    }

    // mode concurrent: sections "=== <n>" each holding a dataflow scenario. Every section is wired, then run alone
    // (reference trace, log tag x=n, between {"k":"phase","p":"solo"} markers), then all are run again at the same
    // time on simulated threads (make_executor + run + release concurrent; pre-emption at every intercepted mutex
    // operation and at every node evaluation).
    int run_concurrent(const Scenario &all)
    {
        std::vector<std::string> texts;
        unsigned long long seed = 1;
        int solo = 1;
        bool use_tape = false, emit_tape = false;
        int instr = 0, instr_target = 0;
        bool instr_profile = false;
        unsigned long long instr_site = 0;
        std::vector<long long> tape;
        {
            std::istringstream in(all.text);
            std::string line;
            while (std::getline(in, line))
            {
                if (line.rfind("===", 0) == 0) { texts.emplace_back(); continue; }
                if (line.rfind("simseed ", 0) == 0) { seed = std::stoull(line.substr(8)); continue; }
                if (line.rfind("simtape", 0) == 0)
                {   // simtape <comma list>: replay these scheduler decisions instead of drawing them from simseed
                    use_tape = true;
                    std::istringstream ts(line.size() > 8 ? line.substr(8) : std::string());
                    std::string tok;
                    while (std::getline(ts, tok, ',')) if (!tok.empty()) tape.push_back(std::stoll(tok));
                    continue;
                }
                if (line.rfind("emit_simtape", 0) == 0) { emit_tape = true; continue; }
                if (line.rfind("instr ", 0) == 0)
                {   // instr <mean interval> [<target modulus>]
                    std::istringstream is(line.substr(6));
                    is >> instr;
                    is >> instr_target;
                    std::string opt;          // site sweep: "profile" | "site=<hex>"
                    while (is >> opt)
                    {
                        if (opt == "profile") instr_profile = true;
                        else if (opt.rfind("site=", 0) == 0) instr_site = std::stoull(opt.substr(5), nullptr, 16);
                    }
                    continue;
                }
                if (line.rfind("solo ", 0) == 0) { solo = std::stoi(line.substr(5)); continue; }
                if (!texts.empty()) { texts.back() += line; texts.back() += "\n"; }
            }
        }
        std::vector<Scenario> scs;
        for (auto &t : texts) scs.push_back(parse_scenario(t));
        std::vector<std::unique_ptr<Job>> jobs;
        for (size_t i = 0; i < scs.size(); ++i)
        {
            jobs.push_back(std::make_unique<Job>());
            jobs.back()->ctx.exec = static_cast<int>(i);
            g_ctx = &jobs.back()->ctx;
            prepare(*jobs.back(), scs[i]);
            g_ctx = &g_default_ctx;
            if (!jobs.back()->wired) { Line("end").str("run", "wire_error").emit(); return 0; }
        }
        clock_fault_config(seed, 0, 0, false);
        if (solo)
        {
            Line("phase").str("p", "solo").emit();
            for (auto &j : jobs) execute(*j);
        }
        Line("phase").str("p", "concurrent").emit();
        sim::Config cfg;
        cfg.seed        = seed;
        cfg.use_tape    = use_tape;
        cfg.tape        = tape;
        cfg.record_tape = emit_tape;
        cfg.instr_interval = instr;
        if (instr > 0) cfg.max_steps = 20'000'000;     // every extra pre-emption point is a scheduler step
        cfg.instr_target_mod = instr_target;
        cfg.instr_profile    = instr_profile;
        cfg.instr_site       = instr_site;
        sim::configure(cfg);
        sim::set_log(false);
        for (auto &j : jobs)
        {
            Job *job = j.get();
            job->obs.yield_hook = [] { sim::yield(); };
            sim::spawn("exec", [job] { execute(*job); });
        }
        sim::run_all();
        g_ctx = &g_default_ctx;
        if (emit_tape || use_tape)
        {
            std::string tp;
            for (long long x : sim::tape_record()) { if (!tp.empty()) tp += ","; tp += std::to_string(x); }
            Line("tape").i("n", static_cast<long long>(sim::tape_record().size())).str("v", tp).emit();
        }
        if (instr_profile) Line("sites").raw("v", profiled_sites_json()).emit();
        Line("end").str("run", "done").i("steps", sim::stats().steps).i("preemptions", sim::stats().preemptions).i("mutex_blocks", sim::stats().mutex_blocks)
            .i("instr_points", sim::stats().instr_points).str("trace_hash", std::to_string(sim::trace_hash())).emit();
        return 0;
    }
}  // namespace hv
