#include "simthreads.h"
#include "common.h"

#include <dlfcn.h>
#include <pthread.h>
#include <semaphore.h>
#include <algorithm>
#include <cerrno>
#include <cstdlib>
#include <ctime>
#include <map>
#include <thread>
#include <unistd.h>

namespace sim
{
    thread_local int no_preempt_depth = 0;
    NoPreempt::NoPreempt() { ++no_preempt_depth; }
    NoPreempt::~NoPreempt() { --no_preempt_depth; }

    namespace
    {
        // splitmix64: a tiny PRNG that needs no libstdc++ state (safe to use inside interposers)
        struct Rng
        {
            unsigned long long s{0x9E3779B97F4A7C15ULL};
            void seed(unsigned long long v) { s = v * 0x9E3779B97F4A7C15ULL + 0x1234567ULL; }
            unsigned long long next()
            {
                unsigned long long z = (s += 0x9E3779B97F4A7C15ULL);
                z = (z ^ (z >> 30)) * 0xBF58476D1CE4E5B9ULL;
                z = (z ^ (z >> 27)) * 0x94D049BB133111EBULL;
                return z ^ (z >> 31);
            }
            double unit() { return (next() >> 11) * (1.0 / 9007199254740992.0); }
        };

        enum St { RUN, BLK_MUTEX, BLK_COND, SLEEPING, DONE };
        struct Th
        {
            int id{0};
            std::string name;
            St st{RUN};
            void *obj{nullptr};
            bool timed{false};
            long long wake{0};
            bool timed_out{false};
            sem_t sem;
            long long countdown{0};      // instrumented build: function entries until the next extra pre-emption point
            bool in_hook{false};
            std::function<void()> body;
            std::thread th;
        };
        struct Mx { Th *owner{nullptr}; int depth{0}; };

        enum Mode { OFF, CLOCK_ONLY, THREADS };
        Mode mode = OFF;
        thread_local Th *self = nullptr;
        std::vector<Th *> threads;
        std::map<void *, Mx> mutexes;
        long long now = 1'700'000'000'000'000LL;
        constexpr long long MONO_SHIFT = 1'600'000'000'000'000LL;   // CLOCK_MONOTONIC = simulated wall - shift (one timeline)
        Config cfg;
        Rng rng_sched, rng_fault, rng_clock;
        Stats st;
        std::vector<int> tr;
        std::vector<long long> tape_out;
        size_t tape_pos = 0;
        bool yielding   = false;          // the running thread gave up the processor voluntarily (sim::yield)
        int target_hits = 0;
        void *single_site = nullptr;      // single-site mode (instr_target_mod < 0)
        long long single_seen = 0, single_index = 0;
        int single_hits = 0;
        bool sticky_pending = false;      // set by a targeted pre-emption: the next choice starts a priority burst
        Th *sticky = nullptr;
        long long sticky_left = 0;
        bool log_on = true;

        // one decision: the PRNG's in a seeded run, the tape's in a replay (dflt beyond its end); 0 = nothing unusual
        template <typename F>
        long long draw(F &&seeded, long long dflt = 0)
        {
            long long v;
            if (cfg.use_tape)
            {
                v = tape_pos < cfg.tape.size() ? cfg.tape[tape_pos] : dflt;
                ++tape_pos;
                if (v < 0) v = 0;
            }
            else v = seeded();
            if (cfg.record_tape || cfg.use_tape) tape_out.push_back(v);
            return v;
        }
        // clock-only mode
        double co_stall_rate = 0;
        long long co_stall_max = 0;
        bool co_coarse = false;
        long long co_faults = 0;
        long long co_reads = 0;

        int (*real_mutex_lock)(pthread_mutex_t *)                                                         = nullptr;
        int (*real_mutex_trylock)(pthread_mutex_t *)                                                      = nullptr;
        int (*real_mutex_unlock)(pthread_mutex_t *)                                                       = nullptr;
        int (*real_clock_gettime)(clockid_t, timespec *)                                                  = nullptr;
        int (*real_cond_wait)(pthread_cond_t *, pthread_mutex_t *)                                        = nullptr;
        int (*real_cond_timedwait)(pthread_cond_t *, pthread_mutex_t *, const timespec *)                 = nullptr;
        int (*real_cond_clockwait)(pthread_cond_t *, pthread_mutex_t *, clockid_t, const timespec *)      = nullptr;
        int (*real_cond_signal)(pthread_cond_t *)                                                         = nullptr;
        int (*real_cond_broadcast)(pthread_cond_t *)                                                      = nullptr;

        void init_real()
        {
            if (real_mutex_lock) return;
            real_mutex_lock     = reinterpret_cast<decltype(real_mutex_lock)>(dlsym(RTLD_NEXT, "pthread_mutex_lock"));
            real_mutex_trylock  = reinterpret_cast<decltype(real_mutex_trylock)>(dlsym(RTLD_NEXT, "pthread_mutex_trylock"));
            real_mutex_unlock   = reinterpret_cast<decltype(real_mutex_unlock)>(dlsym(RTLD_NEXT, "pthread_mutex_unlock"));
            real_clock_gettime  = reinterpret_cast<decltype(real_clock_gettime)>(dlsym(RTLD_NEXT, "clock_gettime"));
            real_cond_wait      = reinterpret_cast<decltype(real_cond_wait)>(dlsym(RTLD_NEXT, "pthread_cond_wait"));
            real_cond_timedwait = reinterpret_cast<decltype(real_cond_timedwait)>(dlsym(RTLD_NEXT, "pthread_cond_timedwait"));
            real_cond_clockwait = reinterpret_cast<decltype(real_cond_clockwait)>(dlsym(RTLD_NEXT, "pthread_cond_clockwait"));
            real_cond_signal    = reinterpret_cast<decltype(real_cond_signal)>(dlsym(RTLD_NEXT, "pthread_cond_signal"));
            real_cond_broadcast = reinterpret_cast<decltype(real_cond_broadcast)>(dlsym(RTLD_NEXT, "pthread_cond_broadcast"));
        }
        inline bool on() { return mode == THREADS && self != nullptr; }

        [[noreturn]] void die(const char *what, int code)
        {
            hv::Line("simfail").str("what", what).i("seq", st.steps).i("wall", now - cfg.start_wall_us).emit();
            for (Th *t : threads)
                hv::Line("simthread").i("th", t->id).str("name", t->name).i("st", t->st).b("timed", t->timed).i("wake", t->wake).emit();
            hv::log_flush();
            _exit(code);
        }

        // wake every timed waiter whose deadline has passed (timeout wake, not forced)
        void expire_timed()
        {
            for (Th *t : threads)
                if ((t->st == BLK_COND || t->st == SLEEPING) && t->timed && t->wake <= now)
                {
                    t->st        = RUN;
                    t->timed_out = true;
                }
        }

        // choose the next thread; never returns a non-runnable thread. `me` may be blocked or done.
        Th *choose(Th *me)
        {
            for (;;)
            {
                if (st.steps >= cfg.max_steps) die("step limit", 4);
                // faults that act between steps
                const long long stall_d = cfg.p_stall > 0 ? draw([&]() -> long long {
                    if (!(rng_fault.unit() < cfg.p_stall)) return 0;
                    return 1 + static_cast<long long>(rng_fault.next() % static_cast<unsigned long long>(std::max<long long>(1, cfg.stall_max_us)));
                }) : 0;
                if (stall_d > 0)
                {
                    long long d = stall_d;
                    now += d;
                    ++st.stalls;
                    if (log_on) hv::Line("sched").str("why", "stall").i("us", d).i("seq", st.steps).i("wall", now - cfg.start_wall_us).emit();
                }
                expire_timed();
                const long long spur = cfg.p_spurious > 0 ? draw([&]() -> long long {
                    if (!(rng_fault.unit() < cfg.p_spurious)) return 0;
                    size_t nw = 0;
                    for (Th *t : threads) if (t->st == BLK_COND) ++nw;
                    return nw == 0 ? 0 : 1 + static_cast<long long>(rng_fault.next() % nw);
                }) : 0;
                if (spur > 0)
                {
                    std::vector<Th *> w;
                    for (Th *t : threads) if (t->st == BLK_COND) w.push_back(t);
                    if (!w.empty())
                    {
                        Th *t        = w[static_cast<size_t>(spur - 1) % w.size()];
                        t->st        = RUN;
                        t->timed_out = false;
                        ++st.spurious;
                        if (log_on) hv::Line("sched").str("why", "spurious").i("th", t->id).i("seq", st.steps).i("wall", now - cfg.start_wall_us).emit();
                    }
                }
                std::vector<Th *> runnable;
                for (Th *t : threads) if (t->st == RUN) runnable.push_back(t);
                if (runnable.empty())
                {
                    Th *best = nullptr;
                    for (Th *t : threads)
                        if ((t->st == BLK_COND || t->st == SLEEPING) && t->timed && (!best || t->wake < best->wake)) best = t;
                    if (!best)
                    {
                        bool all_done = true;
                        for (Th *t : threads) if (t->st != DONE) all_done = false;
                        if (all_done) return nullptr;
                        die("deadlock", 5);
                    }
                    if (best->wake > now) { now = best->wake; ++st.clock_jumps; }
                    const long long late_d = cfg.p_late > 0 ? draw([&]() -> long long {
                        if (!(rng_fault.unit() < cfg.p_late)) return 0;
                        return 1 + static_cast<long long>(rng_fault.next() % static_cast<unsigned long long>(std::max<long long>(1, cfg.late_max_us)));
                    }) : 0;
                    if (late_d > 0)
                    {
                        now += late_d;
                        ++st.late;
                    }
                    // nobody is runnable, so nobody is left who could still notify: a *forced* timeout
                    ++st.forced_timeouts;
                    if (log_on)
                        hv::Line("sched").str("why", "forced_timeout").i("th", best->id).str("kind", best->st == SLEEPING ? "sleep" : "cond").i("seq", st.steps).i("wall", now - cfg.start_wall_us).emit();
                    expire_timed();
                    continue;
                }
                // F3 starvation: not chosen while others are runnable
                if (cfg.starve_thread >= 0 && st.steps >= cfg.starve_from && st.steps < cfg.starve_from + cfg.starve_steps && runnable.size() > 1)
                {
                    std::vector<Th *> r2;
                    for (Th *t : runnable) if (t->id != cfg.starve_thread) r2.push_back(t);
                    if (r2.size() != runnable.size()) { ++st.starved; runnable.swap(r2); }
                }
                // default decision: the running thread keeps the processor; if it blocked, finished or yielded, the next
                // runnable thread in id order after it
                Th *dflt = nullptr;
                const bool me_runnable = me != nullptr && me->st == RUN;
                if (me_runnable && !(yielding && runnable.size() > 1)) dflt = me;
                else
                {
                    for (Th *t : runnable) if (me == nullptr || t->id > me->id) { if (t != me) { dflt = t; break; } }
                    if (!dflt) for (Th *t : runnable) if (t != me) { dflt = t; break; }
                    if (!dflt) dflt = runnable.front();
                }
                yielding = false;
                // priority burst after a targeted pre-emption (instrumented build): the thread that is switched to keeps the
                // processor for a seeded number of steps, so that it can get through a whole critical section while the
                // pre-empted thread sits inside its window. The bookkeeping is outside the seeded draws: a tape replays it.
                const bool start_burst = sticky_pending && runnable.size() > 1;
                sticky_pending = false;
                long long burst_len = 0;
                if (start_burst)
                    burst_len = draw([&]() -> long long { return 20 + static_cast<long long>(rng_sched.next() % 400); }, 0);
                bool sticky_runnable = false;
                if (sticky_left > 0 && sticky != nullptr)
                    for (Th *t : runnable) if (t == sticky) sticky_runnable = true;
                if (!sticky_runnable && !start_burst) sticky_left = 0;          // it blocked or finished: the burst is over
                const long long cv = draw([&]() -> long long {
                    if (start_burst)
                    {
                        std::vector<size_t> others;
                        for (size_t k = 0; k < runnable.size(); ++k) if (runnable[k] != me) others.push_back(k);
                        if (!others.empty())
                        {
                            const size_t k = others[rng_sched.next() % others.size()];
                            return runnable[k] == dflt ? 0 : static_cast<long long>(k) + 1;
                        }
                    }
                    if (sticky_left > 0 && sticky_runnable)
                        for (size_t k = 0; k < runnable.size(); ++k)
                            if (runnable[k] == sticky) return runnable[k] == dflt ? 0 : static_cast<long long>(k) + 1;
                    const size_t k = static_cast<size_t>(rng_sched.next() % runnable.size());
                    return runnable[k] == dflt ? 0 : static_cast<long long>(k) + 1;
                });
                Th *next = cv == 0 ? dflt : runnable[static_cast<size_t>(cv - 1) % runnable.size()];
                if (start_burst) { sticky = next != me ? next : nullptr; sticky_left = sticky ? burst_len : 0; }
                else if (sticky_left > 0 && next == sticky) --sticky_left;
                ++st.steps;
                tr.push_back(next->id);
                if (cfg.step_jitter_us > 0)
                    now += draw([&]() -> long long { return static_cast<long long>(rng_sched.next() % static_cast<unsigned long long>(cfg.step_jitter_us)); }, 1);
                (void)me;
                return next;
            }
        }

        // hand over; returns when `self` holds the baton again
        void reschedule()
        {
            Th *me   = self;
            Th *next = choose(me);
            if (next == nullptr) die("no thread to run while caller alive", 5);
            if (next == me) return;
            ++st.preemptions;
            sem_post(&next->sem);
            sem_wait(&me->sem);
        }

        void thread_main(Th *t)
        {
            self = t;
            sem_wait(&t->sem);
            t->body();
            ++no_preempt_depth;           // the rest runs inside the simulator
            t->st    = DONE;
            Th *next = choose(t);
            self     = nullptr;
            if (next) sem_post(&next->sem);
        }

        void sim_lock(pthread_mutex_t *m)
        {
            reschedule();   // pre-emption point before the acquisition
            Mx &mx = mutexes[m];
            if (mx.owner == self) { ++mx.depth; return; }   // recursive mutex (TypeSystemRecursiveMutex)
            while (mutexes[m].owner != nullptr)
            {
                ++st.mutex_blocks;
                self->st  = BLK_MUTEX;
                self->obj = m;
                reschedule();
            }
            Mx &mx2   = mutexes[m];
            mx2.owner = self;
            mx2.depth = 1;
        }
        int sim_trylock(pthread_mutex_t *m)
        {
            reschedule();
            Mx &mx = mutexes[m];
            if (mx.owner == self) { ++mx.depth; return 0; }
            if (mx.owner != nullptr) return EBUSY;
            mx.owner = self;
            mx.depth = 1;
            return 0;
        }
        void release(pthread_mutex_t *m)
        {
            mutexes.erase(m);
            for (Th *t : threads) if (t->st == BLK_MUTEX && t->obj == m) t->st = RUN;
        }
        void sim_unlock(pthread_mutex_t *m)
        {
            auto it = mutexes.find(m);
            if (it != mutexes.end() && it->second.owner == self && it->second.depth > 1) { --it->second.depth; return; }
            release(m);
            reschedule();   // pre-emption point after the release
        }
        int sim_cond_wait(pthread_cond_t *c, pthread_mutex_t *m, bool timed, long long deadline)
        {
            Th *me = self;
            ++st.cond_waits;
            if (timed) ++st.timed_waits;
            release(m);
            me->st        = BLK_COND;
            me->obj       = c;
            me->timed     = timed;
            me->wake      = deadline;
            me->timed_out = false;
            reschedule();
            me->timed     = false;
            const bool to = me->timed_out;
            while (mutexes[m].owner != nullptr)
            {
                me->st  = BLK_MUTEX;
                me->obj = m;
                reschedule();
            }
            Mx &mx   = mutexes[m];
            mx.owner = me;
            mx.depth = 1;
            return to ? ETIMEDOUT : 0;
        }
        void sim_cond_wake(pthread_cond_t *c, bool all)
        {
            ++st.notifies;
            std::vector<Th *> w;
            for (Th *t : threads) if (t->st == BLK_COND && t->obj == c) w.push_back(t);
            if (!w.empty())
            {
                if (all) for (Th *t : w) { t->st = RUN; t->timed_out = false; }
                else
                {
                    const long long k = draw([&]() -> long long { return static_cast<long long>(rng_sched.next() % w.size()); });
                    Th *t = w[static_cast<size_t>(k) % w.size()];
                    t->st = RUN;
                    t->timed_out = false;
                }
            }
            reschedule();
        }
        long long ts_to_us(const timespec *abs, clockid_t id)
        {
            long long t = static_cast<long long>(abs->tv_sec) * 1000000 + abs->tv_nsec / 1000;
            if (abs->tv_nsec % 1000) ++t;   // round up: never wake before the requested instant
            if (id == CLOCK_MONOTONIC) t += MONO_SHIFT;
            return t;
        }
    }  // namespace

    void clock_only(unsigned long long seed, double stall_rate, long long stall_max_us, bool coarse)
    {
        init_real();
        rng_clock.seed(seed ^ 0xC10CULL);
        co_stall_rate = stall_rate;
        co_stall_max  = stall_max_us;
        co_coarse     = coarse;
        co_faults     = 0;
        now           = 1'700'000'000'000'000LL;
        mode          = CLOCK_ONLY;
    }
    long long clock_faults() { return co_faults; }

    // per-call-site entry counters of the targeted pre-emption (fixed table: no allocation inside the hook)
    struct SiteCount { void *site; int n; };
    SiteCount site_tab[8192];
    int site_count(void *site)
    {
        size_t i = (reinterpret_cast<uintptr_t>(site) >> 2) * 0x9E3779B97F4A7C15ULL >> 51;      // 13 bits
        for (size_t k = 0; k < 8192; ++k, i = (i + 1) & 8191)
        {
            if (site_tab[i].site == site) return ++site_tab[i].n;
            if (site_tab[i].site == nullptr) { site_tab[i].site = site; site_tab[i].n = 1; return 1; }
        }
        return 1 << 30;
    }

    // profile of the site sweep: distinct (call site, thread) pairs met while another thread was runnable (fixed table)
    struct ProfEnt { void *site; int thread; long long n; long long first_step; long long order; };
    ProfEnt prof_tab[16384];
    long long prof_n = 0;
    void prof_note(void *site, int thread)
    {
        size_t i = ((reinterpret_cast<uintptr_t>(site) >> 2) * 0x9E3779B97F4A7C15ULL + static_cast<unsigned>(thread) * 0x632BE59BD9B4E019ULL) >> 50;      // 14 bits
        for (size_t k = 0; k < 16384; ++k, i = (i + 1) & 16383)
        {
            if (prof_tab[i].site == site && prof_tab[i].thread == thread) { ++prof_tab[i].n; return; }
            if (prof_tab[i].site == nullptr) { prof_tab[i] = ProfEnt{site, thread, 1, st.steps, prof_n++}; return; }
        }
    }
    std::vector<SiteInfo> profiled_sites()
    {
        std::vector<ProfEnt> v;
        for (auto &e : prof_tab) if (e.site != nullptr) v.push_back(e);
        std::sort(v.begin(), v.end(), [](const ProfEnt &a, const ProfEnt &b) { return a.order < b.order; });
        std::vector<SiteInfo> out;
        for (auto &e : v) out.push_back(SiteInfo{static_cast<unsigned long long>(reinterpret_cast<uintptr_t>(e.site)), e.thread, e.n, e.first_step});
        return out;
    }
    int thread_state(int id)
    {
        if (id < 0 || static_cast<size_t>(id) >= threads.size()) return -1;
        Th *t = threads[static_cast<size_t>(id)];
        switch (t->st)
        {
            case RUN: return 0;
            case BLK_MUTEX: return 1;
            case BLK_COND: return t->timed ? 3 : 2;
            case SLEEPING: return 4;
            default: return 5;
        }
    }

    void configure(const Config &c)
    {
        init_real();
        cfg = c;
        rng_sched.seed(c.seed);
        rng_fault.seed(c.seed ^ 0xFA17ULL);
        now = c.start_wall_us;
        st  = Stats{};
        tr.clear();
        tape_out.clear();
        tape_pos = 0;
        yielding = false;
        target_hits = 0;
        sticky_pending = false;
        sticky = nullptr;
        sticky_left = 0;
        single_site = nullptr;
        single_seen = 0;
        single_hits = 0;
        if (c.instr_target_mod < 0)
        {
            Rng r;
            r.seed(c.seed ^ 0x51E51E5ULL);
            single_index = static_cast<long long>(r.next() % static_cast<unsigned long long>(-c.instr_target_mod));
        }
        for (auto &e : site_tab) { e.site = nullptr; e.n = 0; }
        for (auto &e : prof_tab) e = ProfEnt{nullptr, 0, 0, 0, 0};
        prof_n = 0;
        threads.clear();
        mutexes.clear();
    }
    int spawn(const std::string &name, std::function<void()> body)
    {
        Th *t   = new Th;
        t->id   = static_cast<int>(threads.size());
        t->name = name;
        t->body = std::move(body);
        sem_init(&t->sem, 0, 0);
        threads.push_back(t);
        return t->id;
    }
    void run_all()
    {
        for (Th *t : threads) t->th = std::thread(thread_main, t);
        mode     = THREADS;
        Th *first = choose(nullptr);
        if (first) sem_post(&first->sem);
        for (Th *t : threads) t->th.join();
        mode = OFF;
    }
    bool in_sim() { return on(); }
    int self_id() { return self ? self->id : -1; }
    void yield() { if (on()) { NoPreempt guard; yielding = true; reschedule(); } }

    // called on every function entry of the instrumented runtime translation units
    void instr_point(void *fn, void *site)
    {
        if (mode != THREADS || self == nullptr || cfg.instr_interval <= 0 || no_preempt_depth > 0) return;
        Th *me = self;
        if (me->in_hook || me->st != RUN) return;
        bool other_runnable = false;
        for (Th *t : threads) if (t != me && t->st == RUN) { other_runnable = true; break; }
        // (a targeted point is only spent when somebody else could actually run: start-up code executed alone would
        // otherwise use up the budget)
        if (cfg.instr_profile)
        {   // profile run of the site sweep: no extra pre-emption at all, only the list of candidate sites
            if (other_runnable) prof_note(site, me->id);
            return;
        }
        if (cfg.instr_site != 0)
        {
            // site sweep: exactly one call site is this run's extra pre-emption point
            if (static_cast<unsigned long long>(reinterpret_cast<uintptr_t>(site)) == cfg.instr_site && other_runnable)
            {
                const int n = ++single_hits;
                if (n > cfg.instr_site_skip && n <= cfg.instr_site_skip + 64)
                {
                    ++st.instr_points;
                    me->in_hook = true;
                    yielding = true;
                    sticky_pending = true;
                    reschedule();
                    me->in_hook = false;
                }
            }
            return;
        }
        if (cfg.instr_target_mod < 0)
        {
            // single-site mode: the k-th distinct call site met after start-up (k seeded below -instr_target_mod) is THE target
            // of this run; only it pre-empts (on its first 64 entries, while another thread is runnable), and the thread
            // switched to gets a priority burst. One site per run means no interference between sites: a window that is hit
            // with near certainty once its site is the target is found after about (#sites) runs.
            if (st.steps > 150)
            {
                if (single_site == nullptr)
                {
                    if (site_count(site) == 1 && ++single_seen > single_index) single_site = site;
                }
                if (site == single_site && other_runnable && single_hits < 64)
                {
                    ++single_hits;
                    ++st.instr_points;
                    me->in_hook = true;
                    yielding = true;
                    sticky_pending = true;
                    reschedule();
                    me->in_hook = false;
                    return;
                }
            }
        }
        else if (cfg.instr_target_mod > 0 && target_hits < cfg.instr_target_cap && other_runnable && !(sticky_left > 0 && sticky == me))
        {   // (the thread that owns a priority burst is not pre-empted at its own targeted sites: it would hand the burst back)
            // the *call site* is hashed, not the callee: one particular call of a hot helper (std::forward inside one
            // std::exchange) can be singled out
            (void)fn;
            unsigned long long z = static_cast<unsigned long long>(reinterpret_cast<uintptr_t>(site)) ^ (cfg.seed * 0x9E3779B97F4A7C15ULL);
            z = (z ^ (z >> 30)) * 0xBF58476D1CE4E5B9ULL;
            z = (z ^ (z >> 27)) * 0x94D049BB133111EBULL;
            z ^= z >> 31;
            static const unsigned long long dbg_site = getenv("HGSIM_TARGET_SITE") ? std::strtoull(getenv("HGSIM_TARGET_SITE"), nullptr, 16) : 0;   // debugging aid
            if (dbg_site ? ((reinterpret_cast<uintptr_t>(site) & 0xffffffffULL) == (dbg_site & 0xffffffffULL))
                         : (z % static_cast<unsigned long long>(cfg.instr_target_mod) == 0 && site_count(site) <= 64))
            {
                ++target_hits;
                ++st.instr_points;
                me->in_hook = true;
                yielding = true;          // a targeted point hands over to another thread by default (it is the whole point)
                sticky_pending = true;
                reschedule();
                me->in_hook = false;
                return;
            }
        }
        if (--me->countdown > 0) return;
        me->in_hook = true;
        const long long iv = draw([&]() -> long long { return 1 + static_cast<long long>(rng_sched.next() % static_cast<unsigned long long>(2 * cfg.instr_interval)); },
                                  cfg.instr_interval);
        me->countdown = iv > 0 ? iv : cfg.instr_interval;
        ++st.instr_points;
        reschedule();
        me->in_hook = false;
    }
    void sleep_us(long long d)
    {
        if (!on()) return;
        NoPreempt guard;
        Th *me        = self;
        me->st        = SLEEPING;
        me->timed     = true;
        me->wake      = now + d;
        me->timed_out = false;
        reschedule();
        me->timed = false;
    }
    long long now_us() { return now; }
    long long seq() { return st.steps; }
    const Stats &stats() { return st; }
    const std::vector<int> &trace() { return tr; }
    const std::vector<long long> &tape_record() { return tape_out; }
    unsigned long long trace_hash()
    {
        unsigned long long h = 1469598103934665603ULL;
        for (int x : tr) { h ^= static_cast<unsigned>(x); h *= 1099511628211ULL; }
        return h;
    }
    void set_log(bool v) { log_on = v; }
}  // namespace sim

extern "C" __attribute__((no_instrument_function)) void __cyg_profile_func_enter(void *fn, void *site) { sim::instr_point(fn, site); }
extern "C" __attribute__((no_instrument_function)) void __cyg_profile_func_exit(void *, void *) {}

namespace hv
{
    void clock_fault_config(unsigned long long seed, double stall_rate, long long stall_max_us, bool coarse)
    {
        sim::clock_only(seed, stall_rate, stall_max_us, coarse);
    }
    long long clock_faults_fired() { return sim::clock_faults(); }
}  // namespace hv

// ---------------------------------------------------------------------------------------------- interposers
extern "C" int clock_gettime(clockid_t id, timespec *ts)
{
    sim::init_real();
    if (sim::mode == sim::OFF || (sim::mode == sim::THREADS && sim::self == nullptr) ||
        (id != CLOCK_REALTIME && id != CLOCK_MONOTONIC))
        return sim::real_clock_gettime(id, ts);
    if (sim::mode == sim::CLOCK_ONLY)
    {
        // simulated wall clock for single-threaded modes: advances a little on every read, sometimes a lot (stall)
        ++sim::co_reads;
        if (!sim::co_coarse || sim::co_reads % 16 == 0) sim::now += static_cast<long long>(sim::rng_clock.next() % 5);
        if (sim::co_stall_rate > 0 && sim::rng_clock.unit() < sim::co_stall_rate)
        {
            sim::now += 1 + static_cast<long long>(sim::rng_clock.next() % static_cast<unsigned long long>(std::max<long long>(1, sim::co_stall_max)));
            ++sim::co_faults;
        }
    }
    long long t = sim::now;
    if (id == CLOCK_MONOTONIC) t -= sim::MONO_SHIFT;
    ts->tv_sec  = t / 1000000;
    ts->tv_nsec = (t % 1000000) * 1000;
    return 0;
}
extern "C" int pthread_mutex_lock(pthread_mutex_t *m)
{
    sim::init_real();
    if (!sim::on()) return sim::real_mutex_lock(m);
    sim::NoPreempt guard;
    sim::sim_lock(m);
    return 0;
}
extern "C" int pthread_mutex_trylock(pthread_mutex_t *m)
{
    sim::init_real();
    if (!sim::on()) return sim::real_mutex_trylock(m);
    sim::NoPreempt guard;
    return sim::sim_trylock(m);
}
extern "C" int pthread_mutex_unlock(pthread_mutex_t *m)
{
    sim::init_real();
    if (!sim::on()) return sim::real_mutex_unlock(m);
    sim::NoPreempt guard;
    sim::sim_unlock(m);
    return 0;
}
extern "C" int pthread_cond_wait(pthread_cond_t *c, pthread_mutex_t *m)
{
    sim::init_real();
    if (!sim::on()) return sim::real_cond_wait(c, m);
    sim::NoPreempt guard;
    return sim::sim_cond_wait(c, m, false, 0);
}
extern "C" int pthread_cond_timedwait(pthread_cond_t *c, pthread_mutex_t *m, const timespec *abs)
{
    sim::init_real();
    if (!sim::on()) return sim::real_cond_timedwait(c, m, abs);
    sim::NoPreempt guard;
    return sim::sim_cond_wait(c, m, true, sim::ts_to_us(abs, CLOCK_REALTIME));
}
extern "C" int pthread_cond_clockwait(pthread_cond_t *c, pthread_mutex_t *m, clockid_t id, const timespec *abs)
{
    sim::init_real();
    if (!sim::on()) return sim::real_cond_clockwait(c, m, id, abs);
    sim::NoPreempt guard;
    return sim::sim_cond_wait(c, m, true, sim::ts_to_us(abs, id));
}
extern "C" int pthread_cond_signal(pthread_cond_t *c)
{
    sim::init_real();
    if (!sim::on()) return sim::real_cond_signal(c);
    sim::NoPreempt guard;
    sim::sim_cond_wake(c, false);
    return 0;
}
extern "C" int pthread_cond_broadcast(pthread_cond_t *c)
{
    sim::init_real();
    if (!sim::on()) return sim::real_cond_broadcast(c);
    sim::NoPreempt guard;
    sim::sim_cond_wake(c, true);
    return 0;
}
// (prof_tab: site sweep profile)
