// (site sweep: profile / single call-site targeting added)
// Deterministic simulation of threads and clocks by interposing the pthread / clock_gettime ABI (DESIGN §2.3).
// The interposers live in the harness executable, so every std::mutex, std::condition_variable and std::chrono clock
// used by code compiled from /repo (and by libstdc++) goes through them. When the simulator is off, or the caller is
// not a simulated thread, calls are forwarded to the real functions.
#pragma once
#include <functional>
#include <string>
#include <vector>

namespace sim
{
    struct Config
    {
        unsigned long long seed{1};
        long long start_wall_us{1'700'000'000'000'000LL};
        int step_jitter_us{3};            // each scheduling step advances the clock by rng % jitter
        double p_spurious{0};             // F4: spurious condition-variable wake-up per step
        double p_stall{0};                // F2: wall clock stall (forward jump) per step
        long long stall_max_us{0};
        double p_late{0};                 // F4: a timed wait wakes late by up to late_max_us
        long long late_max_us{0};
        long long max_steps{200000};
        int starve_thread{-1};            // F3: this thread is not chosen while others are runnable ...
        long long starve_from{0}, starve_steps{0};   // ... for steps in [from, from+steps)
        // Schedule tape: every scheduling / fault decision is one small integer, 0 meaning "nothing unusual" (keep running
        // the current thread, no stall, no spurious or late wake-up). record_tape logs the decisions of a seeded run;
        // use_tape replays a (possibly edited) tape instead of the PRNG - beyond its end every decision is the default.
        // instrumented build only (build.py --instr): mean number of engine function calls between two extra pre-emption
        // points (0 = off). The runtime translation units are then compiled with -finstrument-functions and every function
        // entry counts down; at zero the scheduler may switch threads *inside* engine code, between two interception points.
        int instr_interval{0};
        // ... and targeted pre-emption: every call site whose address hashes (with the seed) to 0 modulo instr_target_mod is
        // a pre-emption point on its first entries - a seeded set of call sites per run, so that
        // a narrow window (two calls wide) inside one particular function is hit in some runs with certainty rather than
        // in every run with a tiny probability. Addresses are stable: the harness runs with ASLR off.
        int instr_target_mod{0};
        int instr_target_cap{20000};      // per run; each selected call site is a pre-emption point on its first 64 entries
        // Systematic site sweep (DESIGN 2.3, "site sweep"): a *profile* run (instr_profile) lists every distinct call site that
        // a simulated thread entered while another thread was runnable; the driver then runs the same scenario once per listed
        // site with instr_site set: that one call site is the run's only extra pre-emption point (entries instr_site_skip ..
        // +64 while another thread is runnable), and the thread switched to gets a priority burst. One pre-emption per site,
        // every site: a window that is one call wide is found by enumeration instead of by luck.
        bool instr_profile{false};
        unsigned long long instr_site{0};
        int instr_site_skip{0};
        std::vector<long long> tape;
        bool use_tape{false};
        bool record_tape{false};
    };

    struct Stats
    {
        long long steps{0}, preemptions{0}, clock_jumps{0}, forced_timeouts{0}, spurious{0}, stalls{0}, late{0}, starved{0},
            mutex_blocks{0}, cond_waits{0}, timed_waits{0}, notifies{0}, instr_points{0};
    };

    // ---- clock-only mode (single-threaded modes): a seeded simulated wall clock with stall / coarse faults
    void clock_only(unsigned long long seed, double stall_rate, long long stall_max_us, bool coarse);
    long long clock_faults();

    // ---- thread simulation
    void configure(const Config &cfg);
    int spawn(const std::string &name, std::function<void()> body);   // returns thread id (spawn order)
    void run_all();                                                    // releases the first thread, joins all
    bool in_sim();
    int self_id();
    void yield();
    void instr_point(void *fn, void *site);
    void sleep_us(long long d);
    long long now_us();
    long long seq();                                                   // global event sequence number (scheduler steps)
    const Stats &stats();
    const std::vector<int> &trace();
    const std::vector<long long> &tape_record();      // decisions taken (when Config::record_tape or use_tape)
    struct SiteInfo { unsigned long long site; int thread; long long entries; long long first_step; };
    std::vector<SiteInfo> profiled_sites();           // instr_profile: distinct (call site, thread) pairs in first-seen order
    int thread_state(int id);                         // 0 runnable, 1 blocked on a mutex, 2 in an untimed wait, 3 in a timed wait, 4 sleeping, 5 done
    unsigned long long trace_hash();
    // the running thread is inside a region where being the last runnable thread means "nobody can notify": used by the
    // lost wake-up oracle; set by the harness around engine waits is not needed - the scheduler logs forced timeouts itself.
    void set_log(bool on);
    // harness code that touches state shared between simulated threads (the log buffer ...) runs with pre-emption at
    // instrumented function entries switched off: only the engine's own windows are meant to be opened
    struct NoPreempt { NoPreempt(); ~NoPreempt(); };
}  // namespace sim
