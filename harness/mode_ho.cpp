// mode higher_order: map_, reduce_, switch_, if_then_else / if_cmp and nested pass-through over scripted writers.
// Serves C10, C11, C12, C13 (and dynamic children for C14/C15).
//
//   writer / wscript / cons / probe      as in mode collections (shapes TS, TSBool, TSS, TSD, TSB, TSL, ...)
//   map <id> fn=<F> d=<writer> [d2=<writer>] [b=<writer>]     map_(fn<F>, d [, d2] [, b broadcast])  -> TSD<Int,TS<Int>>
//   maperr <id> <map id>                                       exception_time_series(map) -> per-key error recorder
//   reduce <id> fn=add|AddInts|MaxG c=<writer> [zero=<n>]      reduce_(fn, collection [, zero]) -> TS<Int>
//   switch <id> key=<writer> cases=<k:F,k:F> [default=<F>] [reload=1] x=<writer>   switch_(key, cases, x) -> TS<Int>
//   ite <id> c=<writer TSBool> a=<writer> b=<writer>           if_then_else(c, a, b) -> shape of a
//   fbk <id> src=<producer> [init=<json delta>]                feedback<S>(w[, initial delta]) bound to <producer>; <id> is the delayed port
//   npass <id> <src>                                           nested_<pass-through>(src)
//   nite <id> c= a= b=                                         if_then_else wired inside a nested graph, result passed out
#include "collvocab.h"

#include <hgraph/lib/std/operators/control.h>
#include <hgraph/lib/std/operators/higher_order.h>
#include <hgraph/lib/std/operators/impl/higher_order_impl.h>

namespace hv
{
    using namespace cv;

    namespace
    {
        using D   = TSD<Int, TS<Int>>;
        using P   = Port<TS<Int>>;
        using B2h = TSB<"HvB2", Field<"a", TS<Int>>, Field<"b", TS<Int>>>;

        void hlog(const char *what, const char *f, DateTime now, long long a = 0, long long b = 0)
        {
            Line("h").str("e", what).str("f", f).i("t", off(now)).i("a", a).i("b", b).emit();
        }

        // fault plan (C14 with dynamic children alive): `fault <fid> <phase> <occ>` - fid names a library function kind
        enum { FID_ADDONE = 7001, FID_ACCUM = 7002, FID_ADDKEY = 7003, FID_TICKAFTER = 7004, FID_FAILON = 7005, FID_ADDINTS = 7006 };
        void hfault(long long fid, int phase) { ctx().faults.maybe_throw(fid, phase); }

        // ---------------------------------------------------------------- function library
        struct NAddOne
        {
            static constexpr auto name = "ho_add_one";
            static void eval(In<"ts", TS<Int>> ts, DateTime now, Out<TS<Int>> out)
            {
                hlog("ev", "AddOne", now, ts.value());
                hfault(FID_ADDONE, PH_EVAL);
                out.set(ts.value() + 1);
            }
        };
        struct NAccum
        {
            static constexpr auto name = "ho_accum";
            static void start(State<Int> s, DateTime now) { s.set(Int{0}); hlog("start", "Accum", now); hfault(FID_ACCUM, PH_START); }
            static void stop(State<Int> s, DateTime now) { hlog("stop", "Accum", now, s.get()); hfault(FID_ACCUM, PH_STOP); }
            static void eval(In<"ts", TS<Int>> ts, State<Int> s, DateTime now, Out<TS<Int>> out)
            {
                hlog("ev", "Accum", now, ts.value(), s.get());
                hfault(FID_ACCUM, PH_EVAL);
                s.set(s.get() + ts.value());
                out.set(s.get());
            }
        };
        struct NAddKey
        {
            static constexpr auto name = "ho_add_key";
            static void eval(In<"key", TS<Int>> key, In<"ts", TS<Int>> ts, DateTime now, Out<TS<Int>> out)
            {
                hlog("ev", "AddKey", now, key.value(), ts.value());
                out.set(key.value() * 1000 + ts.value());
            }
        };
        struct NTickAfter
        {   // re-emits (10 * latest input) two steps after each input tick
            static constexpr auto name = "ho_tick_after";
            static void start(State<Int> s) { s.set(Int{-1}); }
            static void eval(In<"ts", TS<Int>> ts, State<Int> s, NodeScheduler sched, DateTime now, Out<TS<Int>> out)
            {
                const bool due = sched.is_scheduled_now();
                hlog("ev", "TickAfter", now, ts.value(), due ? 1 : 0);
                if (due) out.set(s.get() * 10);
                if (ts.modified())
                {
                    s.set(ts.value());
                    sched.schedule(MIN_TD * 2);
                }
            }
        };
        struct NPulse
        {   // passes each input through and re-emits (10 * latest input) two steps later: a timer is pending in the very
            // cycle in which a node further down the same child may throw
            static constexpr auto name = "ho_pulse";
            static void start(State<Int> s) { s.set(Int{-1}); }
            static void eval(In<"ts", TS<Int>> ts, State<Int> s, NodeScheduler sched, DateTime now, Out<TS<Int>> out)
            {
                const bool due = sched.is_scheduled_now();
                hlog("ev", "Pulse", now, ts.value(), due ? 1 : 0);
                if (due) out.set(s.get() * 10);
                if (ts.modified())
                {
                    s.set(ts.value());
                    out.set(ts.value());
                    sched.schedule(MIN_TD * 2);
                }
            }
        };
        struct NFailOn
        {   // throws when the element equals the magic value
            static constexpr auto name = "ho_fail_on";
            static void start(State<Int> s, DateTime now) { s.set(Int{0}); hlog("start", "FailOn", now); }
            static void stop(State<Int> s, DateTime now) { hlog("stop", "FailOn", now, s.get()); }
            static void eval(In<"ts", TS<Int>> ts, State<Int> s, DateTime now, Out<TS<Int>> out)
            {
                hlog("ev", "FailOn", now, ts.value(), s.get());
                if (ts.value() == 666) throw std::runtime_error("boom 666 at " + std::to_string(off(now)));
                s.set(s.get() + 1);
                out.set(ts.value() * 2);
            }
        };
        struct NAdd2
        {
            static constexpr auto name = "ho_add2";
            static void eval(In<"ts", TS<Int>> ts, In<"b", TS<Int>> b, DateTime now, Out<TS<Int>> out)
            {
                hlog("ev", "Add2", now, ts.value(), b.value());
                out.set(ts.value() + b.value());
            }
        };
        struct NConstSource
        {   // ignores its input's value: emits 7 once when started (a branch that is a source)
            static constexpr auto name              = "ho_const_source";
            static constexpr bool schedule_on_start = true;
            static void eval(DateTime now, Out<TS<Int>> out) { hlog("ev", "ConstSource", now); out.set(Int{7}); }
        };
        struct NAddInts
        {
            static constexpr auto name = "ho_add_ints";
            static void eval(In<"lhs", TS<Int>> a, In<"rhs", TS<Int>> b, Out<TS<Int>> out) { out.set(a.value() + b.value()); }
        };
        struct NAddIntsL
        {   // the same combiner with lifecycle hooks and fault points (C14: combiner graphs alive at the fault time)
            static constexpr auto name = "ho_add_ints_l";
            static void start(DateTime now) { hlog("start", "AddIntsL", now); hfault(FID_ADDINTS, PH_START); }
            static void stop(DateTime now) { hlog("stop", "AddIntsL", now); hfault(FID_ADDINTS, PH_STOP); }
            static void eval(In<"lhs", TS<Int>> a, In<"rhs", TS<Int>> b, DateTime now, Out<TS<Int>> out)
            {
                hlog("ev", "AddIntsL", now, a.value(), b.value());
                hfault(FID_ADDINTS, PH_EVAL);
                out.set(a.value() + b.value());
            }
        };
        struct NMax
        {
            static constexpr auto name = "ho_max";
            static void eval(In<"lhs", TS<Int>> a, In<"rhs", TS<Int>> b, Out<TS<Int>> out) { out.set(std::max(a.value(), b.value())); }
        };

        struct AddOneG { static constexpr auto name = "ho_add_one_g"; static P compose(Wiring &w, P ts) { return wire<NAddOne>(w, ts); } };
        struct AccumG { static constexpr auto name = "ho_accum_g"; static P compose(Wiring &w, P ts) { return wire<NAccum>(w, ts); } };
        struct AddKeyG
        {
            static constexpr auto name = "ho_add_key_g";
            static P compose(Wiring &w, NamedPort<"key", TS<Int>> key, P ts) { return wire<NAddKey>(w, key, ts); }
        };
        // branches over a set input: delta-driven state (running sum of added minus removed), and a stateless reader of the value
        template <int Sign>
        struct NSumDelta
        {
            static constexpr auto name = Sign > 0 ? "ho_sum_delta" : "ho_neg_sum_delta";
            static void start(State<Int> s) { s.set(Int{0}); }
            static void eval(In<"s", TSS<Int>> s, State<Int> st, DateTime now, Out<TS<Int>> out)
            {
                long long v = st.get();
                for (auto &&x : s.added()) v += static_cast<long long>(x);
                for (auto &&x : s.removed()) v -= static_cast<long long>(x);
                st.set(Int{v});
                hlog("ev", Sign > 0 ? "SumDelta" : "NegSumDelta", now, v);
                out.set(Int{Sign * v});
            }
        };
        struct NSumValue
        {
            static constexpr auto name = "ho_sum_value";
            static void eval(In<"s", TSS<Int>> s, DateTime now, Out<TS<Int>> out)
            {
                long long v = 0;
                for (auto &&x : s.values()) v += static_cast<long long>(x);
                hlog("ev", "SumValue", now, v);
                out.set(Int{v + 100000});
            }
        };
        struct SumDeltaG { static constexpr auto name = "ho_sum_delta_g"; static P compose(Wiring &w, Port<TSS<Int>> s) { return wire<NSumDelta<1>>(w, s); } };
        struct NegSumDeltaG { static constexpr auto name = "ho_neg_sum_delta_g"; static P compose(Wiring &w, Port<TSS<Int>> s) { return wire<NSumDelta<-1>>(w, s); } };
        struct SumValueG { static constexpr auto name = "ho_sum_value_g"; static P compose(Wiring &w, Port<TSS<Int>> s) { return wire<NSumValue>(w, s); } };
        // a branch whose held input is a structural (non-peered) bundle: its child links are bound one after another when the
        // branch is activated - in a cycle later than the producers' ticks - and the node logs the whole view it then reads
        template <int K>
        struct NBProbe
        {
            static constexpr auto name = K == 1 ? "ho_bprobe_1" : "ho_bprobe_2";
            static void eval(In<"p", B2h, InputValidity::Unchecked> p, DateTime now, Out<TS<Int>> out)
            {
                Line("BP").i("br", K).i("t", off(now)).raw("i", cv::describe(p.base())).emit();
                long long v = K * 1000;
                auto a = p.template field<"a">();
                auto b = p.template field<"b">();
                if (a.valid()) v += static_cast<long long>(a.value());
                if (b.valid()) v += static_cast<long long>(b.value());
                out.set(Int{v});
            }
        };
        struct BProbe1G { static constexpr auto name = "ho_bprobe1_g"; static P compose(Wiring &w, Port<B2h> p) { return wire<NBProbe<1>>(w, p); } };
        struct BProbe2G { static constexpr auto name = "ho_bprobe2_g"; static P compose(Wiring &w, Port<B2h> p) { return wire<NBProbe<2>>(w, p); } };
        // mesh_: instances that read each other through mesh_ref. An instance whose dependency is not settled yet pauses and is
        // resumed in the same cycle - the only place where a child graph's node loop is entered twice in one cycle
        struct NMeshProbe
        {
            static constexpr auto name = "ho_mesh_probe";
            static void eval(In<"key", TS<Int>> key, In<"link", TS<Int>> link, DateTime now, Out<TS<Int>> out)
            {
                hlog("ev", "MeshProbe", now, key.value(), link.value());
                out.set(link.value());
            }
        };
        struct NMeshTail
        {
            static constexpr auto name = "ho_mesh_tail";
            static void eval(In<"key", TS<Int>> key, In<"x", TS<Int>> x, DateTime now, Out<TS<Int>> out)
            {
                hlog("ev", "MeshTail", now, key.value(), x.value());
                out.set(key.value() + x.value());
            }
        };
        struct MeshChainG
        {   // result[key] = key + result[link[key]]  (0 where the link names an instance that has no value)
            static constexpr auto name = "ho_mesh_chain_g";
            static P compose(Wiring &w, NamedPort<"key", TS<Int>> key, P link)
            {
                P probed = wire<NMeshProbe>(w, key, link);
                P dep    = stdlib::mesh_ref<TS<Int>>(w, probed);
                P zero   = wire<stdlib::const_, TS<Int>>(w, Int{0});
                P base   = wire<stdlib::default_>(w, dep, zero).template as<TS<Int>>();
                return wire<NMeshTail>(w, key, base);
            }
        };
        struct TickAfterG { static constexpr auto name = "ho_tick_after_g"; static P compose(Wiring &w, P ts) { return wire<NTickAfter>(w, ts); } };
        struct FailOnG { static constexpr auto name = "ho_fail_on_g"; static P compose(Wiring &w, P ts) { return wire<NFailOn>(w, ts); } };
        struct PulseFailG { static constexpr auto name = "ho_pulse_fail_g"; static P compose(Wiring &w, P ts) { return wire<NFailOn>(w, wire<NPulse>(w, ts)); } };
        struct Add2G { static constexpr auto name = "ho_add2_g"; static P compose(Wiring &w, P ts, P b) { return wire<NAdd2>(w, ts, b); } };
        // a self-scheduling node on the first multiplexed argument, combined with the second one: a child alarm is pending
        // while the membership of the *second* dictionary changes (the child is re-bound, the key set does not tick)
        struct TickAdd2G { static constexpr auto name = "ho_tick_add2_g"; static P compose(Wiring &w, P ts, P b) { return wire<NAdd2>(w, wire<NTickAfter>(w, ts), b); } };
        struct ConstSourceG { static constexpr auto name = "ho_const_source_g"; static P compose(Wiring &w, P ts) { (void)ts; return wire<NConstSource>(w); } };
        struct ChainG
        {   // two stateful nodes in one child (dynamic child with several nodes alive)
            static constexpr auto name = "ho_chain_g";
            static P compose(Wiring &w, P ts) { return wire<NAddOne>(w, wire<NAccum>(w, ts)); }
        };
        struct MaxG { static constexpr auto name = "ho_max_g"; static P compose(Wiring &w, P lhs, P rhs) { return wire<NMax>(w, lhs, rhs); } };

        template <typename S>
        struct PassG
        {
            static constexpr auto name = "ho_pass_g";
            static Port<S> compose(Wiring &w, Port<S> x) { (void)w; return x; }
        };
        template <typename S>
        struct IteG
        {   // if_then_else wired inside a nested graph, its reference-shaped result passed out
            static constexpr auto name = "ho_ite_g";
            static Port<S> compose(Wiring &w, Port<TS<Bool>> c, Port<S> a, Port<S> b)
            {
                return wire<stdlib::if_then_else>(w, c, a, b).template as<S>();
            }
        };

        // selection by switch_: branch graphs that hand one of two inputs through, directly or behind a reference-shaped
        // terminal (if_then_else over a constant)
        template <typename S> struct BrDirectA { static constexpr auto name = "ho_br_direct_a"; static Port<S> compose(Wiring &, Port<S> a, Port<S>) { return a; } };
        template <typename S> struct BrDirectB { static constexpr auto name = "ho_br_direct_b"; static Port<S> compose(Wiring &, Port<S>, Port<S> b) { return b; } };
        template <typename S>
        struct BrRefA
        {
            static constexpr auto name = "ho_br_ref_a";
            static Port<S> compose(Wiring &w, Port<S> a, Port<S> b) { return wire<stdlib::if_then_else>(w, wire<stdlib::const_, TS<Bool>>(w, Bool{true}), a, b).template as<S>(); }
        };
        template <typename S>
        struct BrRefB
        {
            static constexpr auto name = "ho_br_ref_b";
            static Port<S> compose(Wiring &w, Port<S> a, Port<S> b) { return wire<stdlib::if_then_else>(w, wire<stdlib::const_, TS<Bool>>(w, Bool{false}), a, b).template as<S>(); }
        };

        // the library's pass_through_node with a log line: what a branch that copies its input sees when it is activated
        struct CopyLog
        {
            static constexpr auto name = "ho_copy_log";
            static void eval(In<"ts", TsVar<"S">> ts, DateTime now, Out<TsVar<"S">> out)
            {
                Line("BR").i("t", off(now)).raw("i", cv::describe(ts.base())).emit();
                const Value delta = capture_delta(ts.base());
                apply_delta(out, delta.view());
            }
        };
        template <typename S> struct BrCopyA { static constexpr auto name = "ho_br_copy_a"; static Port<S> compose(Wiring &w, Port<S> a, Port<S>) { return wire<CopyLog>(w, a).template as<S>(); } };
        template <typename S> struct BrCopyB { static constexpr auto name = "ho_br_copy_b"; static Port<S> compose(Wiring &w, Port<S>, Port<S> b) { return wire<CopyLog>(w, b).template as<S>(); } };

        // per-key error recorder for exception_time_series(map)
        struct ErrCons
        {
            static constexpr auto name = "ho_errcons";
            static void eval(In<"e", TSD<Int, TS<NodeError>>, InputValidity::Unchecked> e, Scalar<"id", Int> id, DateTime now)
            {
                std::string items = "{";
                bool first = true;
                auto dict = e.base().as_dict();
                for (auto &&[k, child] : dict.modified_items())
                {
                    if (!first) items += ",";
                    first = false;
                    Line tmp("x");
                    tmp.s.clear();
                    tmp.str("m", child.valid() ? std::string(child.value().as_bundle().at("error_msg").checked_as<Str>()) : std::string("<invalid>"));
                    items += "\"" + jstr(k) + "\":" + tmp.s.substr(5);
                }
                items += "}";
                Line("errs").i("id", id.value()).i("t", off(now)).raw("mod", items).raw("keys", keys_json(dict.keys()))
                    .raw("removed", keys_json(dict.removed_keys())).emit();
            }
        };

        const Scenario *g_hsc = nullptr;

        WiredFn fn_by_name(const std::string &f)
        {
            if (f == "AddOne") return fn<AddOneG>();
            if (f == "Accum") return fn<AccumG>();
            if (f == "AddKey") return fn<AddKeyG>();
            if (f == "TickAfter") return fn<TickAfterG>();
            if (f == "FailOn") return fn<FailOnG>();
            if (f == "PulseFail") return fn<PulseFailG>();
            if (f == "Add2") return fn<Add2G>();
            if (f == "BProbe1") return fn<BProbe1G>();
            if (f == "BProbe2") return fn<BProbe2G>();
            if (f == "SumDelta") return fn<SumDeltaG>();
            if (f == "NegSumDelta") return fn<NegSumDeltaG>();
            if (f == "SumValue") return fn<SumValueG>();
            if (f == "TickAdd2") return fn<TickAdd2G>();
            if (f == "ConstSource") return fn<ConstSourceG>();
            if (f == "Chain") return fn<ChainG>();
            throw std::invalid_argument("higher_order: unknown function " + f);
        }

        struct Ports
        {
            std::map<long long, WiringPortRef> ref;
            std::map<long long, std::string> shape;
        };

        template <typename Fn>
        void with_ho_shape(const std::string &shape, Wiring &w, const WiringPortRef &ref, Fn &&fn)
        {
            if (shape == "TS") fn(Port<TS<Int>>{w, ref});
            else if (shape == "TSBool") fn(Port<TS<Bool>>{w, ref});
            else if (shape == "TSS") fn(Port<TSS<Int>>{w, ref});
            else if (shape == "TSD") fn(Port<D>{w, ref});
            else if (shape == "TSB") fn(Port<B2h>{w, ref});
            else if (shape == "TSL") fn(Port<TSL<TS<Int>, 3>>{w, ref});
            else if (shape == "TSDD") fn(Port<TSD<Int, D>>{w, ref});
            else throw std::invalid_argument("higher_order: unsupported shape " + shape);
        }

        WiringPortRef ho_writer(Wiring &w, const std::string &shape, long long id)
        {
            if (shape == "TS") return wire<CWriter, TS<Int>>(w, Int{id}).erased();
            if (shape == "TSBool") return wire<CWriter, TS<Bool>>(w, Int{id}).erased();
            if (shape == "TSS") return wire<CWriter, TSS<Int>>(w, Int{id}).erased();
            if (shape == "TSD") return wire<CWriter, D>(w, Int{id}).erased();
            if (shape == "TSB") return wire<CWriter, B2h>(w, Int{id}).erased();
            if (shape == "TSL") return wire<CWriter, TSL<TS<Int>, 3>>(w, Int{id}).erased();
            if (shape == "TSDD") return wire<CWriter, TSD<Int, D>>(w, Int{id}).erased();
            if (shape == "TSLB") return wire<CWriter, TSL<B2h, 2>>(w, Int{id}).erased();
            if (shape == "TSLS") return wire<CWriter, TSL<TSS<Int>, 2>>(w, Int{id}).erased();
            throw std::invalid_argument("higher_order: unsupported writer shape " + shape);
        }

        struct HRoot
        {
            static constexpr auto name = "hv_horoot";
            static void compose(Wiring &w)
            {
                Ports ps;
                auto src = [&](const Stmt &st, const std::string &k) -> WiringPortRef {
                    long long id = st.geti(k);
                    auto it      = ps.ref.find(id);
                    if (it == ps.ref.end()) throw std::invalid_argument("higher_order: unknown producer " + std::to_string(id));
                    return it->second;
                };
                for (auto &st : g_hsc->stmts)
                {
                    const auto &k = st.tok[0];
                    if (k == "writer")
                    {
                        long long id  = std::stoll(st.tok.at(1));
                        ps.shape[id]  = st.get("shape");
                        ps.ref[id]    = ho_writer(w, st.get("shape"), id);
                    }
                    else if (k == "map")
                    {
                        long long id = std::stoll(st.tok.at(1));
                        WiredFn f    = fn_by_name(st.get("fn"));
                        Port<D> d{w, src(st, "d")};
                        Port<void> out;
                        if (st.has("d2")) out = wire<stdlib::map_>(w, f, d, Port<D>{w, src(st, "d2")});
                        else if (st.has("b") && st.geti("pb", 0)) out = wire<stdlib::map_>(w, f, d, passive(Port<TS<Int>>{w, src(st, "b")}));
                        else if (st.has("b")) out = wire<stdlib::map_>(w, f, d, Port<TS<Int>>{w, src(st, "b")});
                        else out = wire<stdlib::map_>(w, f, d);
                        ps.ref[id]   = out.as<D>().erased();
                        ps.shape[id] = "TSD";
                    }
                    else if (k == "elem")
                    {   // elem <id> <list writer id> idx=<i>: element i of a TSL<B2,2> / TSL<TSS,2> writer as a port of its own (two
                        // positions inside one producing output: targets of one selection that share their owning output)
                        long long id  = std::stoll(st.tok.at(1));
                        long long src_id = std::stoll(st.tok.at(2));
                        const size_t idx = static_cast<size_t>(st.geti("idx", 0));
                        if (ps.shape.at(src_id) == "TSLB") { Port<TSL<B2h, 2>> l{w, ps.ref.at(src_id)}; ps.ref[id] = tsl_element(l, idx).erased(); ps.shape[id] = "TSB"; }
                        else { Port<TSL<TSS<Int>, 2>> l{w, ps.ref.at(src_id)}; ps.ref[id] = tsl_element(l, idx).erased(); ps.shape[id] = "TSS"; }
                    }
                    else if (k == "mesh")
                    {   // mesh <id> d=<TSD writer>: mesh_(MeshChainG, link)
                        long long id = std::stoll(st.tok.at(1));
                        Port<void> out = wire<stdlib::mesh_>(w, fn<MeshChainG>(), Port<D>{w, src(st, "d")});
                        ps.ref[id]   = out.as<D>().erased();
                        ps.shape[id] = "TSD";
                    }
                    else if (k == "chain")
                    {   // chain <id> src=<id> n=<k>: k AddOne nodes in a row over a TS<Int> producer (a producer of some depth)
                        long long id = std::stoll(st.tok.at(1));
                        P p{w, src(st, "src")};
                        for (long long i = 0; i < st.geti("n", 2); ++i) p = wire<NAddOne>(w, p);
                        ps.ref[id]   = p.erased();
                        ps.shape[id] = "TS";
                    }
                    else if (k == "maperr")
                    {
                        long long id = std::stoll(st.tok.at(1));
                        Port<D> m{w, ps.ref.at(std::stoll(st.tok.at(2)))};
                        auto e = exception_time_series(m);
                        wire<ErrCons>(w, e, Int{id});
                    }
                    else if (k == "reduce")
                    {
                        long long id        = std::stoll(st.tok.at(1));
                        const std::string f = st.get("fn");
                        const long long c   = st.geti("c");
                        const std::string sh = ps.shape.at(c);
                        Port<void> out;
                        auto doit = [&](auto coll) {
                            if (f == "add")
                                out = st.has("zero") ? wire<stdlib::reduce_>(w, fn<stdlib::add_>(), coll, Int{st.geti("zero")}) : wire<stdlib::reduce_>(w, fn<stdlib::add_>(), coll);
                            else if (f == "AddInts")
                                out = st.has("zero") ? wire<stdlib::reduce_>(w, fn<NAddInts>(), coll, Int{st.geti("zero")}) : wire<stdlib::reduce_>(w, fn<NAddInts>(), coll);
                            else if (f == "AddIntsL")
                                out = st.has("zero") ? wire<stdlib::reduce_>(w, fn<NAddIntsL>(), coll, Int{st.geti("zero")}) : wire<stdlib::reduce_>(w, fn<NAddIntsL>(), coll);
                            else if (f == "MaxG")
                                out = st.has("zero") ? wire<stdlib::reduce_>(w, fn<MaxG>(), coll, Int{st.geti("zero")}) : wire<stdlib::reduce_>(w, fn<MaxG>(), coll);
                            else throw std::invalid_argument("higher_order: unknown combiner " + f);
                        };
                        if (sh == "TSD") doit(Port<D>{w, ps.ref.at(c)});
                        else if (sh == "TSL") doit(Port<TSL<TS<Int>, 3>>{w, ps.ref.at(c)});
                        else throw std::invalid_argument("higher_order: reduce over shape " + sh);
                        ps.ref[id]   = out.as<TS<Int>>().erased();
                        ps.shape[id] = "TS";
                    }
                    else if (k == "switch")
                    {
                        long long id = std::stoll(st.tok.at(1));
                        stdlib::SwitchCases sc;
                        for (auto &c : split(st.get("cases"), ','))
                        {
                            auto p = split(c, ':');
                            sc.cases.push_back(stdlib::SwitchCase{Value{Int{std::stoll(p.at(0))}}, fn_by_name(p.at(1))});
                        }
                        if (st.has("default")) sc.default_branch = fn_by_name(st.get("default"));
                        if (st.geti("reload", 0)) sc.reload_on_ticked = true;
                        Port<TS<Int>> key{w, src(st, "key")};
                        if (st.has("ba"))
                        {   // switch <id> key=<w> cases=1:BProbe1,2:BProbe2 ba=<TS writer> bb=<TS writer>: the held input is a structural
                            // bundle {a: ba, b: bb} (no producing node of its own: the branch's input binds each field separately)
                            WiringPortRef sb = WiringPortRef::structural_source(ts_type<B2h>(), {src(st, "ba"), src(st, "bb")});
                            Port<void> so = wire<stdlib::switch_>(w, key, std::move(sc), Port<B2h>{w, sb});
                            ps.ref[id]   = so.as<TS<Int>>().erased();
                            ps.shape[id] = "TS";
                            continue;
                        }
                        if (st.has("s"))
                        {   // a set-valued held input (branches: SumDelta / NegSumDelta / SumValue)
                            Port<void> so = wire<stdlib::switch_>(w, key, std::move(sc), Port<TSS<Int>>{w, src(st, "s")});
                            ps.ref[id]   = so.as<TS<Int>>().erased();
                            ps.shape[id] = "TS";
                            continue;
                        }
                        Port<TS<Int>> x{w, src(st, "x")};
                        Port<void> out = st.has("y") ? wire<stdlib::switch_>(w, key, std::move(sc), x, Port<TS<Int>>{w, src(st, "y")})
                                                     : wire<stdlib::switch_>(w, key, std::move(sc), x);
                        ps.ref[id]   = out.as<TS<Int>>().erased();
                        ps.shape[id] = "TS";
                    }
                    else if (k == "ite" || k == "nite")
                    {
                        long long id        = std::stoll(st.tok.at(1));
                        const std::string sh = ps.shape.at(st.geti("a"));
                        Port<TS<Bool>> c{w, src(st, "c")};
                        with_ho_shape(sh, w, src(st, "a"), [&](auto a) {
                            using S = typename decltype(a)::schema;
                            if constexpr (!std::is_same_v<S, TS<Bool>>)
                            {
                                Port<S> b{w, src(st, "b")};
                                if (k == "ite") ps.ref[id] = wire<stdlib::if_then_else>(w, c, a, b).template as<S>().erased();
                                else ps.ref[id] = nested_<IteG<S>>(w, c, a, b).template as<S>().erased();
                            }
                        });
                        ps.shape[id] = sh;
                    }
                    else if (k == "swsel")
                    {   // swsel <id> c=<bool id> a=<id> b=<id> br=direct|ref: switch_ keyed on the selector, true -> a, false -> b
                        long long id        = std::stoll(st.tok.at(1));
                        const std::string sh = ps.shape.at(st.geti("a"));
                        const bool by_ref   = st.get("br", "direct") == "ref";
                        Port<TS<Bool>> c{w, src(st, "c")};
                        with_ho_shape(sh, w, src(st, "a"), [&](auto a) {
                            using S = typename decltype(a)::schema;
                            if constexpr (!std::is_same_v<S, TS<Bool>>)
                            {
                                Port<S> b{w, src(st, "b")};
                                auto cases = by_ref ? stdlib::switch_cases({{Value{Bool{true}}, fn<BrRefA<S>>()}, {Value{Bool{false}}, fn<BrRefB<S>>()}})
                                             : st.get("br", "direct") == "copy"
                                                 ? stdlib::switch_cases({{Value{Bool{true}}, fn<BrCopyA<S>>()}, {Value{Bool{false}}, fn<BrCopyB<S>>()}})
                                                 : stdlib::switch_cases({{Value{Bool{true}}, fn<BrDirectA<S>>()}, {Value{Bool{false}}, fn<BrDirectB<S>>()}});
                                ps.ref[id] = wire<stdlib::switch_>(w, c, std::move(cases), a, b).template as<S>().erased();
                            }
                        });
                        ps.shape[id] = sh;
                    }
                    else if (k == "fbk")
                    {   // a feedback edge of the producer's shape: reader port = <id>
                        long long id        = std::stoll(st.tok.at(1));
                        long long sid       = st.geti("src");
                        const std::string sh = ps.shape.at(sid);
                        with_ho_shape(sh, w, ps.ref.at(sid), [&](auto port) {
                            using S = typename decltype(port)::schema;
                            if (st.has("init"))
                            {
                                const auto *meta = schema_descriptor<S>::ts_meta();
                                auto fb          = stdlib::feedback<S>(w, from_json_string(meta->delta_value_schema, st.get("init")));
                                ps.ref[id]       = fb().erased();
                                fb(port);
                            }
                            else
                            {
                                auto fb    = stdlib::feedback<S>(w);
                                ps.ref[id] = fb().erased();
                                fb(port);
                            }
                        });
                        ps.shape[id] = sh;
                    }
                    else if (k == "npass")
                    {
                        long long id        = std::stoll(st.tok.at(1));
                        long long s         = std::stoll(st.tok.at(2));
                        const std::string sh = ps.shape.at(s);
                        with_ho_shape(sh, w, ps.ref.at(s), [&](auto a) {
                            using S    = typename decltype(a)::schema;
                            ps.ref[id] = nested_<PassG<S>>(w, a).template as<S>().erased();
                        });
                        ps.shape[id] = sh;
                    }
                    else if (k == "cons" || k == "probe")
                    {
                        long long s = std::stoll(st.tok.at(2));
                        with_ho_shape(ps.shape.at(s), w, ps.ref.at(s), [&](auto port) {
                            if (k == "probe") wire<CProbe>(w, port, Int{std::stoll(st.tok.at(1))}, Int{st.geti("until", 20)});
                            else wire<CCons>(w, port, Int{std::stoll(st.tok.at(1))}, Int{st.geti("every", 1)});
                        });
                    }
                }
            }
        };
    }  // namespace

    int run_higher_order(const Scenario &sc)
    {
        g_hsc = &sc;
        long long start_off = 0, end_off = 30;
        bool cleanup = true;
        g_wscript.clear();
        for (auto &st : sc.stmts)
        {
            const auto &k = st.tok[0];
            if (k == "window") { start_off = std::stoll(st.tok.at(1)); end_off = std::stoll(st.tok.at(2)); }
            else if (k == "wscript") parse_wscript(st);
            else if (k == "option" && st.has("cleanup_on_error")) cleanup = st.geti("cleanup_on_error") != 0;
            else if (k == "fault")
            {
                int ph = st.tok.at(2) == "start" ? PH_START : st.tok.at(2) == "eval" ? PH_EVAL : PH_STOP;
                ctx().faults.faults.push_back({std::stoll(st.tok.at(1)), ph, std::stoi(st.tok.at(3))});
            }
        }
        clock_fault_config(1, 0, 0, false);
        Observer obs;
        obs.log_lifecycle = true;
        obs.log_node_eval = true;
        GraphBuilder gb;
        try { gb = build_graph<HRoot>(); }
        catch (const std::exception &e)
        {
            Line("wire_error").str("what", e.what()).emit();
            Line("end").str("run", "wire_error").emit();
            return 0;
        }
        log_builder(gb);
        GraphExecutorBuilder eb;
        eb.graph_builder(std::move(gb)).start_time(at(start_off)).end_time(at(end_off)).add_lifecycle_observer(&obs).cleanup_on_error(cleanup);
        {
            auto ex = eb.make_executor();
            try
            {
                ex.view().run();
                Line("ran").str("run", "ok").emit();
            }
            catch (const std::exception &e)
            {
                Line("ran").str("run", "threw").str("what", e.what()).emit();
            }
            Line("release").emit();
        }
        Line("released").emit();
        Line("end").str("run", "done").emit();
        return 0;
    }
}  // namespace hv
