#include "common.h"
#include "simthreads.h"

#include <hgraph/runtime/child_graph_inspection.h>

#include <unistd.h>

namespace hv
{
    bool g_log_enabled = true;
    long long T0 = 0;
    Ctx g_default_ctx;
    thread_local Ctx *g_ctx = &g_default_ctx;

    static std::string g_buf;
    void Line::emit()
    {
        if (!g_log_enabled) return;
        sim::NoPreempt guard;       // the buffer is shared by all simulated threads
        if (g_ctx->exec >= 0) { s += ",\"x\":"; s += std::to_string(g_ctx->exec); }
        s += "}\n";
        g_buf += s;
        if (g_buf.size() > (1u << 16)) log_flush();
    }
    void log_flush()
    {
        sim::NoPreempt guard;
        size_t o = 0;
        while (o < g_buf.size())
        {
            ssize_t n = ::write(1, g_buf.data() + o, g_buf.size() - o);
            if (n <= 0) break;
            o += static_cast<size_t>(n);
        }
        g_buf.clear();
    }

    std::string tstr(DateTime t)
    {
        if (t == MIN_DT) return "\"MIN_DT\"";
        if (t == MAX_DT) return "\"MAX_DT\"";
        if (t == MAX_ET) return "\"MAX_ET\"";
        return std::to_string(off(t));
    }

    std::vector<std::string> split(const std::string &s, char sep)
    {
        std::vector<std::string> out;
        std::string cur;
        for (char c : s)
        {
            if (c == sep) { out.push_back(cur); cur.clear(); }
            else cur += c;
        }
        out.push_back(cur);
        if (out.size() == 1 && out[0].empty()) out.clear();
        return out;
    }

    Scenario parse_scenario(const std::string &text)
    {
        Scenario sc;
        sc.text = text;
        std::istringstream in(text);
        std::string line;
        while (std::getline(in, line))
        {
            auto hash = line.find(" #");
            if (!line.empty() && line[0] == '#') continue;
            if (hash != std::string::npos) line = line.substr(0, hash);
            std::istringstream ls(line);
            Stmt st;
            st.text = line;
            std::string tok;
            while (ls >> tok)
            {
                st.tok.push_back(tok);
                auto eq = tok.find('=');
                if (eq != std::string::npos && eq > 0 && tok != "=") st.kv[tok.substr(0, eq)] = tok.substr(eq + 1);
                else st.pos.push_back(tok);
            }
            if (st.tok.empty()) continue;
            if (st.tok[0] == "mode" && st.tok.size() > 1) { if (sc.mode.empty()) sc.mode = st.tok[1]; continue; }
            sc.stmts.push_back(std::move(st));
        }
        return sc;
    }

    const char *phase_name(int p) { return p == PH_START ? "start" : p == PH_EVAL ? "eval" : "stop"; }

    void FaultPlan::maybe_throw(long long id, int phase)
    {
        if (faults.empty()) return;
        int n = ++count[{id, phase}];
        for (auto &f : faults)
        {
            if (f.id == id && f.phase == phase && f.occ == n)
            {
                ++fired;
                Line("fault").i("id", id).str("phase", phase_name(phase)).i("occ", n).emit();
                throw std::runtime_error("injected fault id=" + std::to_string(id) + " phase=" + phase_name(phase) +
                                         " occ=" + std::to_string(n));
            }
        }
    }

    // ------------------------------------------------------------ observer
    int Observer::g(const GraphView &gv)
    {
        auto it = gid.find(gv.data());
        if (it != gid.end()) return it->second;
        return -1;
    }
    int Observer::g_of_node(const NodeView &nv)
    {
        GraphView gv = nv.graph();
        return g(gv);
    }
    void Observer::graph_ev(const char *e, const GraphView &gv)
    {
        if (!log_lifecycle) return;
        Line("life").str("e", e).i("g", g(gv)).emit();
    }
    void Observer::node_ev(const char *e, const NodeView &nv)
    {
        if (!log_lifecycle) return;
        Line("life").str("e", e).i("g", g_of_node(nv)).i("i", static_cast<long long>(nv.node_index())).emit();
    }
    void Observer::on_before_start_graph(const GraphView &gv)
    {
        // a new graph instance: number it (a reused child slot gets a new number)
        gid[gv.data()] = next_gid++;
        int parent_g = -1, parent_i = -1;
        if (gv.is_nested())
        {
            NodeView pn = gv.as_nested().parent_node();
            parent_g    = g_of_node(pn);
            parent_i    = static_cast<int>(pn.node_index());
        }
        Line("gstart").i("g", g(gv)).i("pg", parent_g).i("pi", parent_i).i("n", static_cast<long long>(gv.node_count()))
            .str("path", diagnostic::graph_path(gv)).emit();
        graph_ev("before_start_graph", gv);
    }
    void Observer::on_after_start_graph(const GraphView &gv) { graph_ev("after_start_graph", gv); }
    void Observer::on_start_graph_failed(const GraphView &gv) { graph_ev("start_graph_failed", gv); }
    void Observer::on_before_start_node(const NodeView &n) { node_ev("before_start_node", n); }
    void Observer::on_after_start_node(const NodeView &n) { node_ev("after_start_node", n); }
    void Observer::on_start_node_failed(const NodeView &n) { node_ev("start_node_failed", n); }
    void Observer::on_before_graph_evaluation(const GraphView &gv)
    {
        ctx().cycle_off = off(gv.evaluation_time());
        Line("cyc").i("g", g(gv)).i("t", off(gv.evaluation_time())).emit();
    }
    void Observer::on_after_graph_evaluation(const GraphView &gv)
    {
        Line("cycend").i("g", g(gv)).i("t", off(gv.evaluation_time())).emit();
    }
    void Observer::on_before_node_evaluation(const NodeView &n)
    {
        if (yield_hook) yield_hook();
        if (!log_node_eval) return;
        Line("ne").i("g", g_of_node(n)).i("i", static_cast<long long>(n.node_index())).emit();
    }
    void Observer::on_after_node_evaluation(const NodeView &n)
    {
        if (!log_node_eval) return;
        Line("nx").i("g", g_of_node(n)).i("i", static_cast<long long>(n.node_index())).emit();
    }
    void Observer::on_before_stop_node(const NodeView &n) { node_ev("before_stop_node", n); }
    void Observer::on_after_stop_node(const NodeView &n) { node_ev("after_stop_node", n); }
    void Observer::on_stop_node_failed(const NodeView &n) { node_ev("stop_node_failed", n); }
    void Observer::on_before_stop_graph(const GraphView &gv) { graph_ev("before_stop_graph", gv); }
    void Observer::on_after_stop_graph(const GraphView &gv) { graph_ev("after_stop_graph", gv); }
    void Observer::on_stop_graph_failed(const GraphView &gv) { graph_ev("stop_graph_failed", gv); }

    // ------------------------------------------------------------ compiled graph dump
    namespace
    {
        struct DumpCtx { std::string *out; int depth; };
        void dump_builder(const GraphBuilder &gb, std::string &out, int depth);
        void child_visitor(void *ctx, ChildGraphInspectionView child)
        {
            auto *c = static_cast<DumpCtx *>(ctx);
            if (child.graph == nullptr) return;
            if (c->out->back() != '[') *c->out += ",";
            dump_builder(*child.graph, *c->out, c->depth + 1);
        }
        std::string scalar_text(const Value &v)
        {
            if (!v.has_value()) return "";
            try
            {
                std::string t = v.view().to_string();
                // runtime-only scalars (nested graph contexts) print as addresses: never let one reach the log
                if (t.find("0x") != std::string::npos) return "<opaque>";
                return t;
            }
            catch (...) { return "?"; }
        }
        void dump_builder(const GraphBuilder &gb, std::string &out, int depth)
        {
            out += "{\"nodes\":[";
            bool first = true;
            for (auto &nb : gb.nodes())
            {
                if (!first) out += ",";
                first = false;
                Line l("n");   // reuse the escaper
                l.s.clear();
                l.s += "{\"label\":";
                {
                    std::string lab{nb.label()};
                    if (lab.empty() && nb.type().schema() != nullptr && nb.type().schema()->display_name != nullptr) lab = nb.type().schema()->display_name;
                    Line tmp("x"); tmp.s.clear(); tmp.str("l", lab);
                    // tmp.s == ,"l":"..."
                    l.s += tmp.s.substr(5);
                }
                {
                    Line tmp("x"); tmp.s.clear(); tmp.str("s", scalar_text(nb.scalars()));
                    l.s += ",\"scalars\":" + tmp.s.substr(5);
                }
                l.s += ",\"children\":[";
                if (depth < 6)
                {
                    DumpCtx ctx{&l.s, depth};
                    nb.visit_child_graphs(&ctx, &child_visitor);
                }
                l.s += "]}";
                out += l.s;
            }
            out += "],\"edges\":[";
            first = true;
            for (auto &e : gb.edges())
            {
                if (!first) out += ",";
                first = false;
                out += "[" + std::to_string(graph_edge_source_node(e.source_node)) + "," + std::to_string(e.target_node) + "," +
                       std::to_string(static_cast<int>(graph_edge_source_kind(e.source_node))) + "]";
            }
            out += "]}";
        }
    }  // namespace

    void log_builder(const GraphBuilder &gb, const char *kind)
    {
        std::string out;
        dump_builder(gb, out, 0);
        Line(kind).i("nodes", static_cast<long long>(gb.node_count())).raw("graph", out).emit();
    }
}  // namespace hv
