// Shared vocabulary of the collections and higher_order modes: scripted writers (erased and typed), the full-view
// description used by probes/consumers, probes, consumers, mirrors.
#pragma once
#include "common.h"

#include <hgraph/lib/std/operators/impl/record_replay_memory_impl.h>
#include <hgraph/lib/testing/record_replay_buffer.h>
#include <hgraph/types/time_series/ts_delta.h>
#include <hgraph/types/value/json_codec.h>

namespace hv
{
    using namespace hgraph;

    namespace cv
    {
        using B2 = TSB<"HvB2", Field<"a", TS<Int>>, Field<"b", TS<Int>>>;
        using BS = TSB<"HvBS", Field<"a", TS<Int>>, Field<"s", TSS<Int>>>;
        using BL = TSB<"HvBL", Field<"a", TS<Int>>, Field<"l", TSL<TS<Int>, 2>>>;   // composite fields that can be partially valid
        using BB = TSB<"HvBB", Field<"a", TS<Int>>, Field<"q", B2>>;
        using BW = TSB<"HvBW", Field<"a", TS<Int>>, Field<"w", TSW<Int, 3, 2>>>;

        struct WOp { std::string kind; std::string arg; };
        inline std::map<long long, std::map<long long, std::vector<WOp>>> g_wscript;   // writer id -> offset -> ops

        inline std::string jstr(const ValueView &v)
        {
            try { return v.valid() ? to_json_string(v) : std::string("null"); }
            catch (const std::exception &e)
            {
                Line tmp("x"); tmp.s.clear(); tmp.str("e", std::string("!json:") + e.what());
                return tmp.s.substr(5);
            }
        }
        inline std::string keys_json(Range<ValueView> r)
        {
            std::vector<std::string> ks;
            for (auto &&k : r) ks.push_back(jstr(k));
            std::sort(ks.begin(), ks.end());
            std::string s = "[";
            for (size_t i = 0; i < ks.size(); ++i) { if (i) s += ","; s += ks[i]; }
            return s + "]";
        }

        // full description of what an input shows in this cycle
        inline std::string describe(const TSInputView &in, int depth = 0)
        {
            std::string s = "{";
            const bool valid = in.valid();
            const bool mod   = in.modified();
            s += std::string("\"v\":") + (valid ? "1" : "0") + ",\"m\":" + (mod ? "1" : "0") + ",\"av\":" + (in.all_valid() ? "1" : "0");
            const DateTime lmt = in.last_modified_time();
            s += ",\"lmt\":" + tstr(lmt);
            s += ",\"val\":" + (valid ? jstr(in.value()) : std::string("null"));
            // the per-tick delta as a reader obtains it (also asked for when nothing was written: it must show nothing)
            try
            {
                ValueView dv = in.delta_value();
                s += ",\"dv\":" + jstr(dv);
            }
            catch (const std::exception &e)
            {
                Line tmp("x"); tmp.s.clear(); tmp.str("e", std::string("!dv:") + e.what());
                s += ",\"dv\":" + tmp.s.substr(5);
            }
            try
            {
                Value d = capture_delta(in);
                s += ",\"d\":" + jstr(d.view());
            }
            catch (const std::exception &e)
            {
                Line tmp("x"); tmp.s.clear(); tmp.str("e", std::string("!delta:") + e.what());
                s += ",\"d\":" + tmp.s.substr(5);
            }
            const auto *schema = in.schema();
            if (schema != nullptr && depth < 3)
            {
                switch (schema->kind)
                {
                    case TSTypeKind::TSB:
                    {
                        auto b = in.as_bundle();
                        s += ",\"ch\":{";
                        bool first = true;
                        for (auto &&[name, child] : b.items())
                        {
                            if (!first) s += ",";
                            first = false;
                            s += "\"" + std::string(name) + "\":" + describe(child, depth + 1);
                        }
                        s += "}";
                        break;
                    }
                    case TSTypeKind::TSL:
                    {
                        auto l = in.as_list();
                        s += ",\"ch\":{";
                        for (size_t i = 0; i < l.size(); ++i)
                        {
                            if (i) s += ",";
                            s += "\"" + std::to_string(i) + "\":" + describe(l.at(i), depth + 1);
                        }
                        s += "}";
                        break;
                    }
                    case TSTypeKind::TSS:
                    {
                        auto ss = in.as_set();
                        s += ",\"added\":" + keys_json(ss.added()) + ",\"removed\":" + keys_json(ss.removed()) + ",\"size\":" + std::to_string(ss.size());
                        break;
                    }
                    case TSTypeKind::TSD:
                    {
                        auto d = in.as_dict();
                        s += ",\"added\":" + keys_json(d.added_keys()) + ",\"removed\":" + keys_json(d.removed_keys()) + ",\"modk\":" + keys_json(d.modified_keys()) +
                             ",\"size\":" + std::to_string(d.size());
                        {   // the same delta through the (key, child) views: must name the same keys as the key views
                            auto item_keys = [](auto &&range) {
                                std::vector<std::string> ks;
                                for (auto &&[k, child] : range) { (void)child; ks.push_back(jstr(k)); }
                                std::sort(ks.begin(), ks.end());
                                std::string r = "[";
                                for (size_t i = 0; i < ks.size(); ++i) r += (i ? "," : "") + ks[i];
                                return r + "]";
                            };
                            s += ",\"addi\":" + item_keys(d.added_items()) + ",\"remi\":" + item_keys(d.removed_items()) +
                                 ",\"modi\":" + item_keys(d.modified_items());
                        }
                        std::vector<std::pair<std::string, std::string>> items;
                        for (auto &&[k, child] : d.items()) items.emplace_back(jstr(k), describe(child, depth + 1));
                        std::sort(items.begin(), items.end());
                        s += ",\"ch\":{";
                        for (size_t i = 0; i < items.size(); ++i)
                        {
                            if (i) s += ",";
                            const std::string &k = items[i].first;
                            s += (k.size() && k[0] == '"' ? k : "\"" + k + "\"") + ":" + items[i].second;
                        }
                        s += "}";
                        break;
                    }
                    case TSTypeKind::TSW:
                    {
                        auto w = in.as_window();
                        s += ",\"size\":" + std::to_string(w.size());
                        // the window's own element list, element times and the element evicted by this tick (if any)
                        s += ",\"wv\":[";
                        { bool f = true; for (auto &&v : w.values()) { if (!f) s += ","; f = false; s += jstr(v); } }
                        s += "],\"wt\":[";
                        { bool f = true; for (auto &&t : w.value_times()) { if (!f) s += ","; f = false; s += tstr(t); } }
                        s += "]";
                        if (w.has_removed_value()) s += ",\"wrem\":" + jstr(w.removed_value());
                        break;
                    }
                    default: break;
                }
            }
            return s + "}";
        }

        inline std::string describe_out(const TSOutputView &o)
        {
            std::string s = "{";
            s += std::string("\"v\":") + (o.valid() ? "1" : "0") + ",\"m\":" + (o.modified() ? "1" : "0") + ",\"lmt\":" + tstr(o.last_modified_time());
            s += ",\"val\":" + (o.valid() ? jstr(o.value()) : std::string("null"));
            return s + "}";
        }

        template <typename O>
        const TSOutputView &base_of(const O &o)
        {
            if constexpr (std::is_base_of_v<TSOutputView, O>) return o;
            else return o.base();
        }

        inline void arm_writer(long long id, NodeScheduler &s, DateTime now, bool in_start)
        {
            auto &sc = g_wscript[id];
            auto it  = in_start ? sc.lower_bound(off(now)) : sc.upper_bound(off(now));
            if (it != sc.end()) s.schedule(at(it->first));
        }

        // erased writer: JSON deltas through the tree's own codec + apply_delta
        struct CWriter
        {
            static constexpr auto name = "hv_cwriter";
            static void start(Scalar<"id", Int> id, NodeScheduler s) { arm_writer(id.value(), s, s.now(), true); }
            static void eval(Scalar<"id", Int> id, NodeScheduler s, DateTime now, Out<TsVar<"S">> out)
            {
                const TSOutputView &o = out;
                auto &sc = g_wscript[id.value()];
                auto it  = sc.find(off(now));
                if (it != sc.end())
                {
                    for (auto &op : it->second)
                    {
                        if (op.kind == "d")
                        {
                            Value d = from_json_string(o.schema()->delta_value_schema, op.arg);
                            apply_delta(o, d.view());
                        }
                        else if (op.kind == "inv")
                        {
                            auto m = o.begin_mutation(now);
                            static_cast<void>(m.invalidate());
                        }
                        else throw std::invalid_argument("cwriter: op " + op.kind);
                    }
                }
                Line("W").i("id", id.value()).i("t", off(now)).raw("o", describe_out(o)).emit();
                arm_writer(id.value(), s, now, false);
            }
        };

        // typed writers: the authoring API's own mutators
        template <typename S, typename Apply>
        void typed_eval(long long id, NodeScheduler &s, DateTime now, Out<S> &out, Apply &&apply)
        {
            auto &sc = g_wscript[id];
            auto it  = sc.find(off(now));
            if (it != sc.end())
                for (auto &op : it->second) apply(op);
            const TSOutputView &o = base_of(out);
            Line("W").i("id", id).i("t", off(now)).raw("o", describe_out(o)).emit();
            arm_writer(id, s, now, false);
        }
        inline long long num(const std::string &s) { return std::stoll(s); }
        inline std::pair<std::string, long long> kv(const std::string &s)
        {
            auto c = s.find(':');
            return {s.substr(0, c), std::stoll(s.substr(c + 1))};
        }
        struct TWScalar
        {
            static constexpr auto name = "hv_tw_scalar";
            static void start(Scalar<"id", Int> id, NodeScheduler s) { arm_writer(id.value(), s, s.now(), true); }
            static void eval(Scalar<"id", Int> id, NodeScheduler s, DateTime now, Out<TS<Int>> out)
            {
                typed_eval(id.value(), s, now, out, [&](const WOp &op) {
                    if (op.kind == "set") out.set(Int{num(op.arg)});
                    else if (op.kind == "inv") { const TSOutputView &o = base_of(out); static_cast<void>(o.begin_mutation(now).invalidate()); }
                    else throw std::invalid_argument("tw_scalar: op " + op.kind);
                });
            }
        };
        struct TWSet
        {
            static constexpr auto name = "hv_tw_set";
            static void start(Scalar<"id", Int> id, NodeScheduler s) { arm_writer(id.value(), s, s.now(), true); }
            static void eval(Scalar<"id", Int> id, NodeScheduler s, DateTime now, Out<TSS<Int>> out)
            {
                typed_eval(id.value(), s, now, out, [&](const WOp &op) {
                    if (op.kind == "add") out.add(Int{num(op.arg)});
                    else if (op.kind == "rem") out.remove(Int{num(op.arg)});
                    else if (op.kind == "clear") out.clear();
                    else throw std::invalid_argument("tw_set: op " + op.kind);
                });
            }
        };
        struct TWDict
        {
            static constexpr auto name = "hv_tw_dict";
            static void start(Scalar<"id", Int> id, NodeScheduler s) { arm_writer(id.value(), s, s.now(), true); }
            static void eval(Scalar<"id", Int> id, NodeScheduler s, DateTime now, Out<TSD<Int, TS<Int>>> out)
            {
                typed_eval(id.value(), s, now, out, [&](const WOp &op) {
                    if (op.kind == "set") { auto p = kv(op.arg); out[Int{num(p.first)}].set(Int{p.second}); }
                    else if (op.kind == "setc")
                    {   // an existing entry written through its child output, not through the dictionary's structural API
                        auto p = kv(op.arg);
                        const auto slot = out.find_slot(Int{num(p.first)});
                        if (slot != TS_DATA_NO_CHILD_ID && out.slot_live(slot)) out.at_slot(slot).set(Int{p.second});
                        else out[Int{num(p.first)}].set(Int{p.second});
                    }
                    else if (op.kind == "del")
                    {
                        auto m = static_cast<const TSDOutputView &>(out).begin_mutation(now);
                        Value k{Int{num(op.arg)}};
                        static_cast<void>(m.erase(k.view()));
                    }
                    else if (op.kind == "clear") { auto m = static_cast<const TSDOutputView &>(out).begin_mutation(now); m.clear(); }
                    else throw std::invalid_argument("tw_dict: op " + op.kind);
                });
            }
        };
        struct TWList
        {
            static constexpr auto name = "hv_tw_list";
            static void start(Scalar<"id", Int> id, NodeScheduler s) { arm_writer(id.value(), s, s.now(), true); }
            static void eval(Scalar<"id", Int> id, NodeScheduler s, DateTime now, Out<TSL<TS<Int>, 3>> out)
            {
                typed_eval(id.value(), s, now, out, [&](const WOp &op) {
                    if (op.kind == "seti") { auto p = kv(op.arg); out[static_cast<size_t>(num(p.first))].set(Int{p.second}); }
                    else throw std::invalid_argument("tw_list: op " + op.kind);
                });
            }
        };
        struct TWBundle
        {
            static constexpr auto name = "hv_tw_bundle";
            static void start(Scalar<"id", Int> id, NodeScheduler s) { arm_writer(id.value(), s, s.now(), true); }
            static void eval(Scalar<"id", Int> id, NodeScheduler s, DateTime now, Out<B2> out)
            {
                typed_eval(id.value(), s, now, out, [&](const WOp &op) {
                    if (op.kind == "setf")
                    {
                        auto p = kv(op.arg);
                        if (p.first == "a") out.template field<"a">().set(Int{p.second});
                        else out.template field<"b">().set(Int{p.second});
                    }
                    else throw std::invalid_argument("tw_bundle: op " + op.kind);
                });
            }
        };
        struct TWWin
        {
            static constexpr auto name = "hv_tw_win";
            static void start(Scalar<"id", Int> id, NodeScheduler s) { arm_writer(id.value(), s, s.now(), true); }
            static void eval(Scalar<"id", Int> id, NodeScheduler s, DateTime now, Out<TSW<Int, 3, 2>> out)
            {
                typed_eval(id.value(), s, now, out, [&](const WOp &op) {
                    if (op.kind == "push") out.push(Int{num(op.arg)});
                    else throw std::invalid_argument("tw_win: op " + op.kind);
                });
            }
        };

        struct CProbe
        {   // always awake, never woken by its input: flags are also read in the cycles where nothing happened
            static constexpr auto name              = "hv_cprobe";
            static constexpr bool schedule_on_start = true;
            static void eval(In<"ts", TsVar<"S">, InputActivity::Passive, InputValidity::Unchecked> ts, Scalar<"id", Int> id, Scalar<"until", Int> until,
                             NodeScheduler s, DateTime now)
            {
                const TSInputView &i = ts;
                Line("P").i("id", id.value()).i("t", off(now)).raw("i", describe(i)).emit();
                if (off(now) < until.value()) s.schedule(MIN_TD);
            }
        };
        struct CCons
        {   // active consumer; reads (and so possibly triggers lazy clean-up) only on each n-th evaluation
            static constexpr auto name = "hv_ccons";
            static void start(State<Int> n) { n.set(Int{0}); }
            static void eval(In<"ts", TsVar<"S">, InputValidity::Unchecked> ts, Scalar<"id", Int> id, Scalar<"every", Int> every, State<Int> n, DateTime now)
            {
                n.set(n.get() + 1);
                if (every.value() > 1 && n.get() % every.value() != 0)
                {
                    Line("C").i("id", id.value()).i("t", off(now)).raw("i", "null").emit();
                    return;
                }
                const TSInputView &i = ts;
                Line("C").i("id", id.value()).i("t", off(now)).raw("i", describe(i)).emit();
            }
        };
        struct CMirror
        {
            static constexpr auto name = "hv_cmirror";
            // Unchecked: a window below its minimum count is not valid yet but its pushes must still be mirrored
            static void eval(In<"ts", TsVar<"S">, InputValidity::Unchecked> ts, Scalar<"id", Int> id, DateTime now, Out<TsVar<"S">> out)
            {
                if (!ts.base().modified()) return;
                Value d = capture_delta(ts.base());
                apply_delta(out, d.view());
                const TSOutputView &o = out;
                Line("M").i("id", id.value()).i("t", off(now)).raw("d", jstr(d.view())).raw("o", describe_out(o)).emit();
            }
        };

        void parse_wscript(const Stmt &st);
    }  // namespace cv
}  // namespace hv
