// Shared pieces of the hgsim harness: event log, scenario lines, fault plan, lifecycle observer.
// The harness is a scenario *interpreter*: it wires programs through the real Wiring / GraphBuilder API from a
// fixed vocabulary of static node structs, runs the real executor and streams every observation as JSON lines.
#pragma once

#include <hgraph/lib/std/std_nodes.h>
#include <hgraph/lib/std/std_operators.h>
#include <hgraph/lib/std/operators/impl/operators_impl.h>
#include <hgraph/runtime/diagnostic_path.h>
#include <hgraph/runtime/lifecycle_observer.h>
#include <hgraph/runtime/runtime.h>
#include <hgraph/types/context_wiring.h>
#include <hgraph/types/graph_wiring.h>
#include <hgraph/types/static_node.h>
#include <hgraph/types/subgraph_wiring.h>
#include <hgraph/types/wired_fn.h>

#include <cstdio>
#include <cstdlib>
#include <cstring>
#include <map>
#include <set>
#include <sstream>
#include <stdexcept>
#include <string>
#include <vector>

namespace hv
{
    using namespace hgraph;

    // ---------------------------------------------------------------- log
    // One JSON object per line on stdout. Logging never draws from a PRNG and never reads a clock.
    struct Line
    {
        std::string s;
        bool first{true};
        explicit Line(const char *kind) { s.reserve(128); s += "{\"k\":\""; s += kind; s += "\""; first = false; }
        Line &key(const char *k) { s += ",\""; s += k; s += "\":"; return *this; }
        Line &i(const char *k, long long v) { key(k); s += std::to_string(v); return *this; }
        Line &b(const char *k, bool v) { key(k); s += v ? "true" : "false"; return *this; }
        Line &raw(const char *k, const std::string &v) { key(k); s += v; return *this; }
        Line &str(const char *k, std::string_view v)
        {
            key(k); s += '"';
            for (char c : v)
            {
                switch (c)
                {
                    case '"': s += "\\\""; break;
                    case '\\': s += "\\\\"; break;
                    case '\n': s += "\\n"; break;
                    case '\t': s += "\\t"; break;
                    case '\r': s += "\\r"; break;
                    default:
                        if (static_cast<unsigned char>(c) < 0x20) { char buf[8]; std::snprintf(buf, sizeof buf, "\\u%04x", c); s += buf; }
                        else s += c;
                }
            }
            s += '"';
            return *this;
        }
        void emit();
    };
    void log_flush();
    extern bool g_log_enabled;

    // ---------------------------------------------------------------- time
    extern long long T0;   // MIN_ST in microseconds since epoch; all logged times are offsets from it
    inline long long off(DateTime t) { return t.time_since_epoch().count() - T0; }
    inline DateTime at(long long offset) { return DateTime{std::chrono::microseconds{T0 + offset}}; }
    // "no time" sentinels are logged symbolically
    std::string tstr(DateTime t);

    // ---------------------------------------------------------------- scenario
    struct Stmt
    {
        std::vector<std::string> tok;                 // whitespace separated tokens
        std::map<std::string, std::string> kv;        // key=value tokens
        std::vector<std::string> pos;                 // positional tokens (no '=')
        std::string text;
        [[nodiscard]] bool has(const std::string &k) const { return kv.count(k) != 0; }
        [[nodiscard]] std::string get(const std::string &k, const std::string &d = "") const
        {
            auto it = kv.find(k);
            return it == kv.end() ? d : it->second;
        }
        [[nodiscard]] long long geti(const std::string &k, long long d = 0) const
        {
            auto it = kv.find(k);
            return it == kv.end() ? d : std::stoll(it->second);
        }
    };
    struct Scenario
    {
        std::string mode;
        std::vector<Stmt> stmts;
        std::string text;
    };
    Scenario parse_scenario(const std::string &text);
    std::vector<std::string> split(const std::string &s, char sep);

    // ---------------------------------------------------------------- fault plan (F1)
    // fault <id> <phase> <occurrence>: the vocabulary node with that id throws on its <occurrence>-th execution of
    // <phase> (start|eval|stop), counted per process over all instances carrying that id.
    enum Phase { PH_START = 0, PH_EVAL = 1, PH_STOP = 2 };
    struct FaultPlan
    {
        struct F { long long id; int phase; int occ; };
        std::vector<F> faults;
        std::map<std::pair<long long, int>, int> count;
        int fired{0};
        void maybe_throw(long long id, int phase);
    };
    const char *phase_name(int p);

    // ---------------------------------------------------------------- per-executor scenario context
    // Scenario tables are reached through a thread-local pointer so that several independent executors can run
    // concurrently (C07) on simulated threads, each with its own scripts, fault plan and log tag.
    struct TimerOp { char kind; long long n; std::string tag; };   // '+' delta, '@' abs offset, 'u' untag, 'U' un_schedule(), 'p' pop, 'r' reset
    struct Ctx
    {
        int exec{-1};                                                                   // log tag ("x"), -1 = none
        std::map<long long, std::map<long long, long long>> src_script;                 // id -> offset -> value
        std::map<long long, std::map<long long, std::vector<TimerOp>>> timer_script;    // id -> k (0=start, n=n-th eval) -> ops
        FaultPlan faults;
        long long lift_id[4]{0, 0, 0, 0};                                               // slot -> node id of the lifted functions (vocab LiftQ<K>)
        long long cycle_off{0};                                                         // engine time of the cycle in progress (offset), for code that has no DateTime at hand
    };
    std::string profiled_sites_json();      // site sweep: the candidate call sites of a profile run (mode_threads.cpp)
    extern thread_local Ctx *g_ctx;
    inline Ctx &ctx() { return *g_ctx; }
    extern Ctx g_default_ctx;

    // ---------------------------------------------------------------- observer
    // Graph instances are numbered in order of on_before_start_graph (addresses never reach the log).
    struct Observer : LifecycleObserver
    {
        std::map<const void *, int> gid;
        int next_gid{0};
        bool log_node_eval{true};
        bool log_lifecycle{true};
        void (*yield_hook)(){nullptr};   // threads mode: pre-emption point at every node evaluation
        int g(const GraphView &gv);
        int g_of_node(const NodeView &nv);
        void graph_ev(const char *e, const GraphView &gv);
        void node_ev(const char *e, const NodeView &nv);

        void on_before_start_graph(const GraphView &g) override;
        void on_after_start_graph(const GraphView &g) override;
        void on_start_graph_failed(const GraphView &g) override;
        void on_before_start_node(const NodeView &n) override;
        void on_after_start_node(const NodeView &n) override;
        void on_start_node_failed(const NodeView &n) override;
        void on_before_graph_evaluation(const GraphView &g) override;
        void on_after_graph_evaluation(const GraphView &g) override;
        void on_before_node_evaluation(const NodeView &n) override;
        void on_after_node_evaluation(const NodeView &n) override;
        void on_before_stop_node(const NodeView &n) override;
        void on_after_stop_node(const NodeView &n) override;
        void on_stop_node_failed(const NodeView &n) override;
        void on_before_stop_graph(const GraphView &g) override;
        void on_after_stop_graph(const GraphView &g) override;
        void on_stop_graph_failed(const GraphView &g) override;
    };

    // log the compiled graph (labels, edges, child graphs)
    void log_builder(const GraphBuilder &gb, const char *kind = "wire");

    void reset_all_tables();   // scenario tables (scripts, fault plan): cleared after warm-up

    // ---------------------------------------------------------------- modes
    int run_dataflow(const Scenario &sc);
    int run_concurrent(const Scenario &sc);
    int run_collections(const Scenario &sc);
    int run_higher_order(const Scenario &sc);
    int run_threads(const Scenario &sc);

    // wall-clock fault control for non-thread modes (implemented in simthreads.cpp)
    void clock_fault_config(unsigned long long seed, double stall_rate, long long stall_max_us, bool coarse);
    long long clock_faults_fired();
}  // namespace hv
