#!/bin/sh
# Determinism self-test (DESIGN 4.1): every check is run on the same seeds under two PYTHONHASHSEED values and two worker
# counts; the digest over all per-run event-log digests must be identical. Usage: selftest/determinism.sh [runs] [ids...]
cd "$(dirname "$0")/.." || exit 2
runs=${1:-300}; shift
ids=${*:-C01 C02 C03 C04 C05 C06 C07 C08 C09 C10 C11 C12 C13 C14 C15 C16 C17 C18 C20}
bad=0
for id in $ids; do
  r=$runs
  case $id in C14|C15|C06|C07) r=$((runs / 10 + 5));; esac
  a=$(PYTHONHASHSEED=0 VERIF_WORKERS=16 /venv/bin/python sim/check_main.py $id --runs $r --no-evidence 2>&1 | grep digest_of_digests)
  b=$(PYTHONHASHSEED=12345 VERIF_KEEP_HASHSEED=1 VERIF_WORKERS=3 /venv/bin/python sim/check_main.py $id --runs $r --no-evidence 2>&1 | grep digest_of_digests)
  if [ -n "$a" ] && [ "$a" = "$b" ]; then echo "ok   $a (hashseed 0 / 16 workers == hashseed 12345 / 3 workers, $r runs)"; else echo "DIFF $id: '$a' vs '$b'"; bad=1; fi
done
# instrumented build (pre-emption at function-call granularity): the same comparison for the three thread-simulating checks
if [ -n "$INSTR" ]; then
  for id in C16 C17 C07; do
    r=$runs; [ $id = C07 ] && r=$((runs / 10 + 5))
    a=$(PYTHONHASHSEED=0 VERIF_WORKERS=16 /venv/bin/python sim/check_main.py $id --instr --runs $r --no-evidence 2>&1 | grep digest_of_digests)
    b=$(PYTHONHASHSEED=12345 VERIF_KEEP_HASHSEED=1 VERIF_WORKERS=3 /venv/bin/python sim/check_main.py $id --instr --runs $r --no-evidence 2>&1 | grep digest_of_digests)
    if [ -n "$a" ] && [ "$a" = "$b" ]; then echo "ok   $a (--instr, $r runs)"; else echo "DIFF $id --instr: '$a' vs '$b'"; bad=1; fi
  done
fi
exit $bad
