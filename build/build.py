#!/usr/bin/env python3
"""Offline build of /repo's C++ tree + the /verif harness, with a content-addressed object cache.

Usage:  build.py [--repo /repo] [--san] [--quiet]
Prints the path of the linked harness binary on the last line. Exit 0 = built, exit 2 = build error
(a compile error in the tree is a HARNESS_ERROR for the checks, never a VIOLATION).

Cache layout (/verif/.cache, git-ignored):
  obj/<key>.o, obj/<key>.d     key = sha256(flags, TU path, TU content, content of every dependency listed
                               in the TU's last .d file). Dependencies are re-read from the .d of the *candidate*
                               object, so a stale object can never be linked: content decides, not mtime.
  dep/<variant>/<tu>.json      last known dependency list per TU (to compute the key without compiling)
  bin/<linkkey>/hgsim          linked harness
"""
import fcntl
import hashlib
import json
import os
import re
import subprocess
import sys
import time
from concurrent.futures import ThreadPoolExecutor

VERIF = os.path.dirname(os.path.dirname(os.path.abspath(__file__)))
CACHE = os.environ.get("VERIF_CACHE", os.path.join(VERIF, ".cache"))
SP = "/venv/lib/python3.12/site-packages"
CXX = os.environ.get("VERIF_CXX", "g++")

EXCLUDED_TUS = {
    # needs C++20 tzdb / date-tz: replaced by harness/tzstub.cpp
    "hgraph/types/time_zone_provider.cpp",
    # uses the simdjson DOM, which is not available offline; the harness registers operator families one by one
    "hgraph/lib/std/operators/json_impl.cpp",
}
CHRONO_SHIM_TUS = {"hgraph/types/temporal.cpp", "hgraph/types/value/json_codec.cpp"}


def sha(*parts):
    h = hashlib.sha256()
    for p in parts:
        if isinstance(p, str):
            p = p.encode()
        h.update(p)
        h.update(b"\0")
    return h.hexdigest()


_file_hash_cache = {}


def file_hash(path):
    r = _file_hash_cache.get(path)
    if r is None:
        try:
            with open(path, "rb") as f:
                r = hashlib.sha256(f.read()).hexdigest()
        except OSError:
            r = "missing"
        _file_hash_cache[path] = r
    return r


def parse_tus(repo):
    text = open(os.path.join(repo, "src/CMakeLists.txt")).read()
    tus = []
    for m in re.finditer(r"set\((HGRAPH_\w+_SOURCES)\s+(.*?)\)", text, re.S):
        for tok in m.group(2).split():
            if tok.endswith(".cpp") and tok not in tus:
                tus.append(tok)
    return tus


def gen_version_header(repo, gen_dir):
    src = open(os.path.join(repo, "include/hgraph/version.h.in")).read()
    ver = "0.0.0"
    m = re.search(r"project\([^)]*VERSION\s+([0-9.]+)", open(os.path.join(repo, "CMakeLists.txt")).read(), re.S)
    if m:
        ver = m.group(1)
    parts = (ver.split(".") + ["0", "0", "0"])[:3]
    out = (src.replace("@PROJECT_VERSION_MAJOR@", parts[0]).replace("@PROJECT_VERSION_MINOR@", parts[1])
           .replace("@PROJECT_VERSION_PATCH@", parts[2]).replace("@PROJECT_VERSION@", ver)
           .replace("@HGRAPH_GIT_BRANCH@", "verif").replace("@HGRAPH_GIT_COMMIT_HASH@", "verif")
           .replace("@HGRAPH_GIT_COMMIT_DATE@", "verif"))
    path = os.path.join(gen_dir, "hgraph/version.h")
    os.makedirs(os.path.dirname(path), exist_ok=True)
    old = open(path).read() if os.path.exists(path) else None
    if old != out:
        with open(path, "w") as f:
            f.write(out)


def parse_depfile(path):
    txt = open(path).read().replace("\\\n", " ")
    if ":" not in txt:
        return []
    deps = txt.split(":", 1)[1].split()
    return sorted(set(os.path.realpath(d) for d in deps))


class Builder:
    def __init__(self, repo, san=False, quiet=False, opt=None):
        self.repo = os.path.realpath(repo)
        self.san = san
        self.quiet = quiet
        # san: False (std) | True (ASan+UBSan) | "instr" (runtime TUs compiled with -finstrument-functions: the simulator can
        # pre-empt a simulated thread at function-call granularity, see harness/simthreads.cpp)
        self.variant = san if san in ("instr", "instrsan") else ("san" if san else "std")
        self.gen = os.path.join(CACHE, "gen")
        self.objdir = os.path.join(CACHE, "obj")
        self.depdir = os.path.join(CACHE, "dep", self.variant)
        for d in (self.gen, self.objdir, self.depdir):
            os.makedirs(d, exist_ok=True)
        opt = opt or os.environ.get("VERIF_OPT", "-O0")
        self.base_flags = ["-std=c++23", opt, "-w", "-fPIC", "-pthread",
                           "-DHGRAPH_STATIC_DEFINE", "-DHGRAPH_ENABLE_PYTHON_USER_NODES=0", "-DFMT_HEADER_ONLY",
                           "-DSPDLOG_FMT_EXTERNAL", "-DHGRAPH_TIME_ZONE_BACKEND_STD=1"]
        if os.environ.get("HGRAPH_VERIF") == "1":
            self.base_flags.append("-DHGRAPH_VERIF=1")
        if san is True or san == "instrsan":
            self.base_flags += ["-fsanitize=address,undefined", "-fno-omit-frame-pointer", "-fno-sanitize-recover=undefined"]
        self.includes = ["-I" + self.gen, "-I" + os.path.join(self.repo, "include"),
                         "-I" + os.path.join(self.repo, "include/third_party"),
                         "-I" + os.path.join(VERIF, "build/compat"),
                         "-I" + os.path.join(VERIF, "harness"),
                         "-isystem", SP + "/include", "-isystem", SP + "/pyarrow/include"]
        self.compiled = 0
        self.reused = 0

    def log(self, *a):
        if not self.quiet:
            print(*a, file=sys.stderr, flush=True)

    def rel(self, path):
        """dependency names are stored relative to their root so that a cache filled from one checkout is valid for another"""
        if path.startswith(self.repo + "/"):
            return "R:" + path[len(self.repo) + 1:]
        if path.startswith(VERIF + "/"):
            return "V:" + path[len(VERIF) + 1:]
        return "A:" + path

    def absolute(self, name):
        kind, p = name[:2], name[2:]
        return os.path.join(self.repo, p) if kind == "R:" else os.path.join(VERIF, p) if kind == "V:" else p

    def key_for(self, label, src, flags, deps):
        return sha("v4", label, " ".join(flags), file_hash(src), *[d + "=" + file_hash(self.absolute(d)) for d in deps])

    def compile_one(self, label, src, extra_flags=()):
        """Returns object path; raises CalledProcessError on compile failure."""
        flags = self.base_flags + list(extra_flags)
        depjson = os.path.join(self.depdir, label.replace("/", "__") + ".json")
        # a variant that has no dependency list for this TU yet borrows the standard variant's: the include set does not depend
        # on instrumentation / sanitizer flags, and the object key still contains the flags - a TU whose flags are those of the
        # standard build (everything outside runtime/ in the instrumented variant) is then reused instead of compiled again
        known = depjson if os.path.exists(depjson) else os.path.join(CACHE, "dep", "std", label.replace("/", "__") + ".json")
        if os.path.exists(known):
            try:
                deps = json.load(open(known))
                if deps and not deps[0][:2] in ("R:", "V:", "A:"):
                    raise ValueError("old dependency format")
                key = self.key_for(label, src, flags, deps)
                obj = os.path.join(self.objdir, key + ".o")
                if os.path.exists(obj):
                    self.reused += 1
                    try:
                        os.utime(obj)
                    except OSError:
                        pass
                    return obj
            except (ValueError, OSError):
                pass
        tmp_o = os.path.join(self.objdir, "tmp-%d-%s.o" % (os.getpid(), sha(label)[:12]))
        tmp_d = tmp_o[:-2] + ".d"
        cmd = [CXX] + flags + self.includes + ["-MMD", "-MF", tmp_d, "-c", src, "-o", tmp_o]
        t0 = time.time()
        p = subprocess.run(cmd, capture_output=True, text=True)
        if p.returncode != 0:
            for f in (tmp_o, tmp_d):
                if os.path.exists(f):
                    os.unlink(f)
            sys.stderr.write("COMPILE ERROR in %s\n%s\n" % (src, p.stderr[-6000:]))
            raise subprocess.CalledProcessError(p.returncode, cmd)
        deps = [self.rel(d) for d in parse_depfile(tmp_d) if d != os.path.realpath(src)
                and (d.startswith(self.repo) or d.startswith(VERIF))]
        key = self.key_for(label, src, flags, deps)
        obj = os.path.join(self.objdir, key + ".o")
        os.replace(tmp_o, obj)
        os.unlink(tmp_d)
        with open(depjson + ".tmp%d" % os.getpid(), "w") as f:
            json.dump(deps, f)
        os.replace(depjson + ".tmp%d" % os.getpid(), depjson)
        self.compiled += 1
        self.log("  compiled %-60s %.1fs" % (label, time.time() - t0))
        return obj

    def build(self):
        gen_version_header(self.repo, self.gen)
        tus = [t for t in parse_tus(self.repo) if t not in EXCLUDED_TUS]
        jobs = []
        for t in tus:
            extra = []
            if t in CHRONO_SHIM_TUS:
                extra = ["-include", os.path.join(VERIF, "build/compat/chrono_compat.h")]
            if self.variant in ("instr", "instrsan") and t.startswith("hgraph/runtime/"):
                # (-fno-fold-simple-inlines: GCC 12 otherwise folds std::move / std::forward away even at -O0, and with them the
                # only call between the load and the store of a std::exchange)
                extra = extra + ["-finstrument-functions", "-fno-fold-simple-inlines",
                                 "-finstrument-functions-exclude-file-list=third_party,site-packages,/gen/"]      # (standard-library templates stay instrumented: a switch inside std::exchange and the like is reachable)
            jobs.append(("repo/" + t, os.path.join(self.repo, "src", t), extra))
        hdir = os.path.join(VERIF, "harness")
        for f in sorted(os.listdir(hdir)):
            if f.endswith(".cpp"):
                jobs.append(("harness/" + f, os.path.join(hdir, f), []))
        # longest first (rough: by size) to keep the pool busy
        jobs.sort(key=lambda j: -os.path.getsize(j[1]))
        nproc = int(os.environ.get("VERIF_JOBS", os.cpu_count() or 4))
        objs = {}
        errors = []

        def run(j):
            try:
                objs[j[0]] = self.compile_one(*j)
            except subprocess.CalledProcessError:
                errors.append(j[0])

        with ThreadPoolExecutor(nproc) as ex:
            list(ex.map(run, jobs))
        if errors:
            sys.stderr.write("BUILD FAILED: %s\n" % ", ".join(sorted(errors)))
            return None
        ordered = [objs[k] for k in sorted(objs)]
        if self.variant in ("instr", "instrsan"):
            # the linker keeps the first copy of every template instantiation shared between objects (COMDAT): the copies of
            # the instrumented runtime objects must win, or a std::forward called from engine code has no hook in it
            ordered = [objs[k] for k in sorted(objs, key=lambda k: (0 if k.startswith("repo/hgraph/runtime/") else 1, k))]
        linkkey = sha("link-v1", self.variant, *ordered)[:24]
        bindir = os.path.join(CACHE, "bin", linkkey)
        binary = os.path.join(bindir, "hgsim")
        if not os.path.exists(binary):
            os.makedirs(bindir, exist_ok=True)
            rsp = os.path.join(bindir, "objs.rsp")
            with open(rsp, "w") as f:
                f.write("\n".join(ordered))
            cmd = [CXX, "-pthread", "-rdynamic", "@" + rsp, "-o", binary + ".tmp",
                   "-L" + SP + "/pyarrow", "-l:libarrow.so.2500", "-l:libarrow_compute.so.2500",
                   "-l:libarrow_acero.so.2500", "-Wl,-rpath," + SP + "/pyarrow", "-lpthread", "-ldl"]
            if self.san is True or self.san == "instrsan":
                cmd.insert(1, "-fsanitize=address,undefined")
            p = subprocess.run(cmd, capture_output=True, text=True)
            if p.returncode != 0:
                sys.stderr.write("LINK ERROR\n%s\n" % p.stderr[-8000:])
                return None
            os.replace(binary + ".tmp", binary)
            self.log("  linked", binary)
            self.prune_bins(keep=bindir)
        else:
            try:
                os.utime(bindir)
            except OSError:
                pass
        return binary

    def prune_bins(self, keep):
        root = os.path.join(CACHE, "bin")
        ents = sorted((os.path.getmtime(os.path.join(root, d)), d) for d in os.listdir(root))
        # binaries are touched on every use (see below); one that was used within the last two hours may belong
        # to a check that is still running against another checkout, so it is never removed
        now = time.time()
        for mt, d in ents[:-6]:
            p = os.path.join(root, d)
            if p != keep and now - mt > 7200:
                subprocess.run(["rm", "-rf", p])


def prune_objs(max_bytes=6 << 30):
    objdir = os.path.join(CACHE, "obj")
    ents = []
    total = 0
    for f in os.listdir(objdir):
        p = os.path.join(objdir, f)
        try:
            st = os.stat(p)
        except OSError:
            continue
        ents.append((st.st_mtime, st.st_size, p))
        total += st.st_size
    ents.sort()
    for _, sz, p in ents:
        if total <= max_bytes:
            break
        try:
            os.unlink(p)
            total -= sz
        except OSError:
            pass


def tree_stamp(repo, variant):
    """Content hash of every file that can influence the build (fast path only; the per-object keys decide)."""
    h = hashlib.sha256()
    h.update((variant + "|" + os.environ.get("VERIF_OPT", "-O0") + "|" + os.environ.get("HGRAPH_VERIF", "")).encode())
    roots = [os.path.join(repo, "src"), os.path.join(repo, "include"), os.path.join(repo, "CMakeLists.txt"),
             os.path.join(VERIF, "harness"), os.path.join(VERIF, "build")]
    for root in roots:
        if os.path.isfile(root):
            files = [root]
        else:
            files = []
            for d, dn, fn in os.walk(root):
                dn.sort()
                for f in sorted(fn):
                    files.append(os.path.join(d, f))
        for f in files:
            h.update(f.encode())
            try:
                with open(f, "rb") as fh:
                    h.update(hashlib.sha256(fh.read()).digest())
            except OSError:
                h.update(b"?")
    return h.hexdigest()[:32]


def build(repo="/repo", san=False, quiet=True):
    os.makedirs(CACHE, exist_ok=True)
    os.makedirs(os.path.join(CACHE, "stamp"), exist_ok=True)
    stamp = os.path.join(CACHE, "stamp", tree_stamp(os.path.realpath(repo), san if san in ("instr", "instrsan") else ("san" if san else "std")))
    if os.path.exists(stamp):
        binary = open(stamp).read().strip()
        if os.path.exists(binary):
            try:
                os.utime(os.path.dirname(binary))
            except OSError:
                pass
            return binary
    lock = open(os.path.join(CACHE, "build.lock"), "w")
    fcntl.flock(lock, fcntl.LOCK_EX)
    try:
        b = Builder(repo, san=san, quiet=quiet)
        t0 = time.time()
        binary = b.build()
        b.log("build: compiled=%d reused=%d %.1fs" % (b.compiled, b.reused, time.time() - t0))
        if b.compiled:
            prune_objs()
        if binary:
            with open(stamp + ".tmp%d" % os.getpid(), "w") as f:
                f.write(binary)
            os.replace(stamp + ".tmp%d" % os.getpid(), stamp)
        return binary
    finally:
        fcntl.flock(lock, fcntl.LOCK_UN)
        lock.close()


if __name__ == "__main__":
    import argparse
    ap = argparse.ArgumentParser()
    ap.add_argument("--repo", default=os.environ.get("VERIF_REPO", "/repo"))
    ap.add_argument("--san", action="store_true")
    ap.add_argument("--instr", action="store_true")
    ap.add_argument("--instrsan", action="store_true")
    ap.add_argument("--quiet", action="store_true")
    a = ap.parse_args()
    out = build(a.repo, san="instrsan" if a.instrsan else ("instr" if a.instr else a.san), quiet=a.quiet)
    if not out:
        sys.exit(2)
    print(out)
