// Minimal stand-in for simdjson (absent offline): only validate_utf8 is used by conversion_impl.cpp.
#pragma once
#include <string_view>
namespace simdjson {
inline bool validate_utf8(std::string_view s) noexcept {
    const unsigned char *p = reinterpret_cast<const unsigned char *>(s.data()); size_t n = s.size(), i = 0;
    while (i < n) { unsigned char c = p[i]; size_t k = c < 0x80 ? 0 : (c >> 5) == 6 ? 1 : (c >> 4) == 14 ? 2 : (c >> 3) == 30 ? 3 : 99;
        if (k == 99 || i + k >= n + (k == 0)) { if (k == 99 || i + k > n - 1 + (k==0 ? 1:0)) return false; }
        for (size_t j = 1; j <= k; ++j) { if (i + j >= n || (p[i + j] >> 6) != 2) return false; }
        i += k + 1; }
    return true;
}
}
