// Compatibility shims for libstdc++ 12 (no C++20 chrono I/O). Verification build only.
#pragma once
#include <chrono>
#include <ostream>
#include <istream>
#include <ctime>
#include <cstdio>
namespace std::chrono {
  inline std::ostream& operator<<(std::ostream& os, const year_month_day& ymd) {
    char buf[32]; std::snprintf(buf, sizeof buf, "%04d-%02u-%02u", int(ymd.year()), unsigned(ymd.month()), unsigned(ymd.day()));
    return os << buf;
  }
  template <class Duration>
  inline std::ostream& operator<<(std::ostream& os, const sys_time<Duration>& tp) {
    auto dp = floor<days>(tp); year_month_day ymd{dp}; hh_mm_ss<std::chrono::microseconds> t{duration_cast<microseconds>(tp - dp)};
    char buf[64]; std::snprintf(buf, sizeof buf, "%04d-%02u-%02u %02ld:%02ld:%02ld.%06ld", int(ymd.year()), unsigned(ymd.month()), unsigned(ymd.day()), (long)t.hours().count(), (long)t.minutes().count(), (long)t.seconds().count(), (long)t.subseconds().count());
    return os << buf;
  }
  template <class CharT, class Traits, class T>
  inline std::basic_istream<CharT, Traits>& from_stream(std::basic_istream<CharT, Traits>& is, const CharT*, T&) {
    is.setstate(std::ios::failbit); return is;
  }
}
